package main

import (
	"fmt"
	"go/token"
	"go/types"
	"sort"
	"strings"

	"golang.org/x/tools/go/ssa"
)

// ERR-BEFORE-USE (C23). Instances: every call site `(…, v, …, err) := f(…)` in the request-path
// code (api, api/functions, grpc, proto-importing files of the root package; function literals
// included) whose last result is `error` and which has a result v of pointer or interface type.
//
// Summary of f (static callee; for an interface method every implementation declared in the
// module; depth 3): f "may return nil v with an error" when one of its return statements
// returns the constant nil for v together with a non-nil error operand, or returns both results
// of a call whose callee has that summary. Functions without a body are looked up in
// dErrNilTable (stdlib entries). A callee that never does this (e.g. returns &T{} on every
// path) creates no obligation beyond being counted.
//
// Obligation: when f may return nil v with an error, no dereference of v — field access through
// the pointer, load/store through it, indexing a pointer to array, a method call on an interface
// value (also in go/defer), a call of a method whose body dereferences its receiver in its entry
// block, a value-receiver method called through the pointer — may be reachable unless the edge
// "err == nil" (or "v != nil") of a test of this call's err (or of v) dominates it. v and err are
// followed through phis (`var h; var err; if c { h, err = f() } else { h, err = g() }` yields
// phis of both).
//
// Accepted idioms: `if err != nil { return … }` before the use; `if err == nil { use }`;
// `if err != nil || …`, `if err == nil && …` (each operand is its own branch in SSA);
// `if v != nil`; returning v and err untouched; passing v on as an argument; calling a method
// declared on the pointer type whose entry block does not touch the receiver.
func init() {
	register(&Rule{
		Name:  "ERR-BEFORE-USE",
		IR:    "ssa",
		Props: []string{"C23"},
		Floor: 98, // (v, err) call sites with a pointer/interface result in scope on the original tree
		Doc: "for every (v, err) := f() in api, api/functions, grpc and the expression/proto code of package b6 where some implementation of f returns a nil v with a non-nil error, " +
			"every dereference of v is dominated by the err == nil (or v != nil) edge of a test of that err (or v)",
		Run: runErrBeforeUse,
	})
}

// dErrNilTable: functions without a body in the module that return a nil first result
// together with a non-nil error (true) or never a nil result (false). Keyed by ssa full name.
var dErrNilTable = map[string]bool{
	"compress/zlib.NewReader":     true,
	"compress/gzip.NewReader":     true,
	"os.Open":                     true,
	"os.Create":                   true,
	"os.OpenFile":                 true,
	"net/http.NewRequest":         true,
	"net/http.Get":                true,
	"net/url.Parse":               true,
	"regexp.Compile":              true,
	"google.golang.org/grpc.Dial": true,
}

type dEBU struct {
	c     *Ctx
	memo  map[string]int // 1 yes, 0 no, -1 unknown (external, not tabled)
	impls map[string][]*ssa.Function
	named []*types.Named
}

const (
	dYes     = 1
	dNo      = 0
	dUnknown = -1
)

func runErrBeforeUse(c *Ctx) []Obligation {
	c.BuildSSA()
	a := &dEBU{c: c, memo: map[string]int{}, impls: map[string][]*ssa.Function{}}
	for _, p := range c.SortedPkgs() {
		sc := p.Types.Scope()
		for _, n := range sc.Names() {
			tn, ok := sc.Lookup(n).(*types.TypeName)
			if !ok || tn.IsAlias() {
				continue
			}
			nt, ok := tn.Type().(*types.Named)
			if !ok || nt.TypeParams().Len() > 0 || types.IsInterface(nt) {
				continue
			}
			a.named = append(a.named, nt)
		}
	}
	var sites []dSite
	for _, u := range dRequestScope(c) {
		for _, fd := range dDeclsIn(c, u) {
			declName := c.FuncName(u.pkg, fd)
			seq := 0
			for _, fn := range dFuncSSA(c, u.pkg, fd) {
				for _, b := range fn.Blocks {
					for _, in := range b.Instrs {
						call, ok := in.(*ssa.Call)
						if !ok {
							continue
						}
						if s, ok := a.site(call); ok {
							seq++
							s.decl, s.seq = declName, seq
							sites = append(sites, s)
						}
					}
				}
			}
		}
	}
	return dObligations(c, sites)
}

// site examines one call; ok=false when the call has no (v, err) result shape.
func (a *dEBU) site(call *ssa.Call) (dSite, bool) {
	tup, ok := call.Type().(*types.Tuple)
	if !ok || tup.Len() < 2 || !dIsErrorType(tup.At(tup.Len()-1).Type()) {
		return dSite{}, false
	}
	errIdx := tup.Len() - 1
	var vIdx []int
	for i := 0; i < errIdx; i++ {
		if dIsPointerOrInterface(tup.At(i).Type()) && !dIsErrorType(tup.At(i).Type()) {
			vIdx = append(vIdx, i)
		}
	}
	if len(vIdx) == 0 {
		return dSite{}, false
	}
	c := a.c
	s := dSite{pos: dInstrPos(call), status: OK}
	callees, cname := a.callees(call.Common())
	if callees == nil {
		s.detail = fmt.Sprintf("%s: dynamic callee, not summarised", cname)
		return s, true
	}
	var errV ssa.Value
	extracts := map[int]ssa.Value{}
	if call.Referrers() != nil {
		for _, r := range *call.Referrers() {
			if ex, ok := r.(*ssa.Extract); ok {
				if ex.Index == errIdx {
					errV = ex
				} else {
					extracts[ex.Index] = ex
				}
			}
		}
	}
	summary := ""
	for _, i := range vIdx {
		v := extracts[i]
		if v == nil {
			continue // result discarded
		}
		verdict, witness := dNo, ""
		for _, f := range callees {
			switch r := a.mayNil(f, i, 3); r {
			case dYes:
				verdict, witness = dYes, f.String()
			case dUnknown:
				if verdict == dNo {
					verdict, witness = dUnknown, f.String()
				}
			}
			if verdict == dYes {
				break
			}
		}
		if verdict == dNo {
			summary += fmt.Sprintf(" result %d of %s is never nil with an error;", i, cname)
			continue
		}
		d := a.unguardedDeref(v, errV)
		if d == nil {
			summary += fmt.Sprintf(" result %d of %s: every dereference is behind the error test;", i, cname)
			continue
		}
		if verdict == dUnknown {
			s.status = Undecided
			s.detail = fmt.Sprintf("result %d of %s is dereferenced at %s before any test of the error, and %s has no body and no entry in dErrNilTable", i, cname, c.Position(dInstrPos(d)), witness)
			return s, true
		}
		s.status = Violation
		s.detail = fmt.Sprintf("%s may return a nil result %d together with an error (%s does); the result is dereferenced at %s, not dominated by a test of the error or of the result (nil dereference on the error path)",
			cname, i, witness, c.Position(dInstrPos(d)))
		s.path = []string{"call at " + c.Position(dInstrPos(call)), "dereference at " + c.Position(dInstrPos(d)) + ": " + d.String()}
		return s, true
	}
	if summary == "" {
		summary = " pointer/interface results unused"
	}
	s.detail = cname + ":" + summary
	return s, true
}

// callees: the functions a call may run (static callee, or the module's implementations of an
// interface method); nil for calls of function values.
func (a *dEBU) callees(com *ssa.CallCommon) ([]*ssa.Function, string) {
	if f := com.StaticCallee(); f != nil {
		return []*ssa.Function{f}, f.String()
	}
	if !com.IsInvoke() {
		return nil, "call of a function value"
	}
	m := com.Method
	iface, _ := com.Value.Type().Underlying().(*types.Interface)
	name := dShort(com.Value.Type()) + "." + m.Name()
	if iface == nil {
		return nil, name
	}
	key := com.Value.Type().String() + "." + m.Name()
	if fs, ok := a.impls[key]; ok {
		return fs, name
	}
	fs := []*ssa.Function{}
	for _, nt := range a.named {
		for _, t := range []types.Type{nt, types.NewPointer(nt)} {
			if !types.Implements(t, iface) {
				continue
			}
			sel := a.c.Prog.MethodSets.MethodSet(t).Lookup(m.Pkg(), m.Name())
			if sel == nil {
				continue
			}
			if f := a.c.Prog.MethodValue(sel); f != nil {
				fs = append(fs, f)
			}
			break // the value type's method set is included in the pointer's
		}
	}
	sort.Slice(fs, func(i, j int) bool { return fs[i].String() < fs[j].String() })
	// An interface declared outside the module (or without any implementation in it) has
	// implementations the rule cannot see: a body-less placeholder makes the summary "unknown".
	if nt := namedOf(com.Value.Type()); len(fs) == 0 || nt == nil || nt.Obj().Pkg() == nil || !strings.HasPrefix(nt.Obj().Pkg().Path(), ModulePath) {
		fs = append(fs, a.c.Prog.NewFunction("external implementation of "+name, m.Type().(*types.Signature), "placeholder"))
	}
	a.impls[key] = fs
	return fs, name
}

// mayNil: does f return the constant nil as result i together with a non-nil error?
func (a *dEBU) mayNil(f *ssa.Function, i int, depth int) int {
	key := fmt.Sprintf("%s#%d", f.String(), i)
	if r, ok := a.memo[key]; ok {
		return r
	}
	if len(f.Blocks) == 0 {
		// wrappers and synthetic functions have blocks; this is a function without source
		r := dUnknown
		if yes, ok := dErrNilTable[f.String()]; ok {
			r = dNo
			if yes {
				r = dYes
			}
		}
		a.memo[key] = r
		return r
	}
	if depth == 0 {
		return dNo
	}
	a.memo[key] = dNo // recursion guard
	res := dNo
	n := f.Signature.Results().Len()
	for _, b := range f.Blocks {
		ret, ok := b.Instrs[len(b.Instrs)-1].(*ssa.Return)
		if !ok || len(ret.Results) != n || i >= n {
			continue
		}
		if r := a.pairNil(ret.Results[i], ret.Results[n-1], depth, map[ssa.Value]bool{}); r == dYes {
			res = dYes
			break
		} else if r == dUnknown {
			res = dUnknown
		}
	}
	a.memo[key] = res
	return res
}

// pairNil: can the pair (v, e) be (nil, non-nil)?
func (a *dEBU) pairNil(v, e ssa.Value, depth int, seen map[ssa.Value]bool) int {
	if seen[v] {
		return dNo
	}
	seen[v] = true
	if dIsNilConst(e) {
		return dNo
	}
	if dIsNilConst(v) {
		return dYes
	}
	switch x := v.(type) {
	case *ssa.Extract:
		ex, ok := e.(*ssa.Extract)
		if !ok || ex.Tuple != x.Tuple {
			return dNo
		}
		call, ok := x.Tuple.(*ssa.Call)
		if !ok {
			return dNo
		}
		if ex.Index != call.Type().(*types.Tuple).Len()-1 {
			return dNo
		}
		fs, _ := a.callees(call.Common())
		res := dNo
		for _, f := range fs {
			switch a.mayNil(f, x.Index, depth-1) {
			case dYes:
				return dYes
			case dUnknown:
				res = dUnknown
			}
		}
		return res
	case *ssa.Phi:
		res := dNo
		ep, _ := e.(*ssa.Phi)
		for k, edge := range x.Edges {
			ee := e
			if ep != nil && ep.Block() == x.Block() {
				ee = ep.Edges[k]
			}
			switch a.pairNil(edge, ee, depth, seen) {
			case dYes:
				return dYes
			case dUnknown:
				res = dUnknown
			}
		}
		return res
	}
	return dNo
}

// unguardedDeref returns a dereference of v (followed through phis and conversions) that is
// not dominated by the good edge of a nil test of the error or of v.
func (a *dEBU) unguardedDeref(v, errV ssa.Value) ssa.Instruction {
	follow := func(start ssa.Value, conv bool) []ssa.Value {
		var out []ssa.Value
		seen := map[ssa.Value]bool{}
		var add func(x ssa.Value)
		add = func(x ssa.Value) {
			if x == nil || seen[x] {
				return
			}
			seen[x] = true
			out = append(out, x)
			if x.Referrers() == nil {
				return
			}
			for _, r := range *x.Referrers() {
				switch y := r.(type) {
				case *ssa.Phi:
					add(y)
				case *ssa.ChangeType:
					if conv {
						add(y)
					}
				}
			}
		}
		add(start)
		return out
	}
	V := follow(v, true)
	E := follow(errV, false)

	// good edges: (from block, to block) on which err == nil or v != nil
	type edge struct{ from, to *ssa.BasicBlock }
	var good []edge
	addGuards := func(vals []ssa.Value, nilIsGood bool) {
		for _, x := range vals {
			if x.Referrers() == nil {
				continue
			}
			for _, r := range *x.Referrers() {
				bo, ok := r.(*ssa.BinOp)
				if !ok || (bo.Op != token.EQL && bo.Op != token.NEQ) {
					continue
				}
				if !(dIsNilConst(bo.X) || dIsNilConst(bo.Y)) || bo.Referrers() == nil {
					continue
				}
				for _, rr := range *bo.Referrers() {
					iff, ok := rr.(*ssa.If)
					if !ok {
						continue
					}
					// true successor holds "x == nil" for EQL, "x != nil" for NEQ
					trueIsNil := bo.Op == token.EQL
					k := 0
					if trueIsNil != nilIsGood {
						k = 1
					}
					good = append(good, edge{iff.Block(), iff.Block().Succs[k]})
				}
			}
		}
	}
	addGuards(E, true)
	addGuards(V, false)

	guarded := func(at *ssa.BasicBlock) bool {
		for _, g := range good {
			if dEdgeDominates(g.from, g.to, at) {
				return true
			}
		}
		return false
	}

	var found ssa.Instruction
	consider := func(in ssa.Instruction) {
		if found != nil || guarded(in.Block()) {
			return
		}
		found = in
	}
	for _, x := range V {
		if x.Referrers() == nil {
			continue
		}
		refs := append([]ssa.Instruction(nil), *x.Referrers()...)
		sort.SliceStable(refs, func(i, j int) bool { return dInstrPos(refs[i]) < dInstrPos(refs[j]) })
		for _, r := range refs {
			switch y := r.(type) {
			case *ssa.FieldAddr:
				if y.X == x {
					consider(y)
				}
			case *ssa.IndexAddr:
				if _, isPtr := x.Type().Underlying().(*types.Pointer); isPtr && y.X == x {
					consider(y)
				}
			case *ssa.UnOp:
				if y.Op == token.MUL && y.X == x {
					consider(y)
				}
			case *ssa.Store:
				if y.Addr == x {
					consider(y)
				}
			case ssa.CallInstruction:
				com := y.Common()
				if com.IsInvoke() {
					if com.Value == x {
						consider(y)
					}
					continue
				}
				f := com.StaticCallee()
				if f == nil || f.Signature.Recv() == nil || len(com.Args) == 0 || com.Args[0] != x {
					continue
				}
				if dDerefsReceiverAtEntry(f) {
					consider(y)
				}
			}
		}
	}
	return found
}

// dEdgeDominates: every path from the function entry to block at passes the edge from→to.
func dEdgeDominates(from, to, at *ssa.BasicBlock) bool {
	if !to.Dominates(at) || to.Dominates(from) {
		return false
	}
	n := 0
	for _, p := range to.Preds {
		if p == from {
			n++
			continue
		}
		if !to.Dominates(p) {
			return false // another way into the region
		}
	}
	return n == 1
}

// dDerefsReceiverAtEntry: the method's entry block dereferences the receiver (field access or
// load through it), so a nil receiver panics whenever it is called. Wrappers of value-receiver
// methods (`(*T).M` for `func (T) M`) load the receiver first and qualify.
func dDerefsReceiverAtEntry(f *ssa.Function) bool {
	if len(f.Blocks) == 0 || len(f.Params) == 0 {
		return false
	}
	recv := f.Params[0]
	if _, ok := recv.Type().Underlying().(*types.Pointer); !ok {
		return false
	}
	for _, in := range f.Blocks[0].Instrs {
		switch y := in.(type) {
		case *ssa.FieldAddr:
			if y.X == ssa.Value(recv) {
				// computing a field address panics on nil only when it is then used; ssa emits the
				// nil check at the FieldAddr itself
				return true
			}
		case *ssa.UnOp:
			if y.Op == token.MUL && y.X == ssa.Value(recv) {
				return true
			}
		}
	}
	return false
}
