package main

import (
	"fmt"
	"go/ast"
	"go/token"
	"go/types"

	"golang.org/x/tools/go/cfg"
)

// MARK-DELETED (C07): iterators positioned on a node that is deleted from the AVL tree repair
// themselves by asking node.isDeleted(); that only works if the delete path marks the node.
// In every method named DeleteKey of package search, in the descent loop, every path through
// the arm taken when the comparison with the key yields ComparisonEqual must call
// markDeleted() on the compared node before it leaves the loop (next iteration, break to the
// statement after the loop, or return). A call that never returns (panic) ends a path harmlessly.
//
// Discovery: the arm is a case clause listing the constant search.ComparisonEqual in a switch,
// or the then-branch of `if <expr> == ComparisonEqual`, inside a for statement; the compared
// node N is the base of the first argument `N.v` of the comparison call that is the switch tag
// (or the left operand), when it has that form. The marking call is a call of the method
// markDeleted declared on N's type, resolved through types, with receiver N.
//
// Accepted idioms: switch arm and if-then arm as above; any control structure inside the arm.
// A re-assignment of N before the call is reported (the mark would hit another node).
// Not covered: that markDeleted really makes isDeleted() true (parent = self).
func init() {
	register(&Rule{
		Name:  "MARK-DELETED",
		IR:    "cfg",
		Props: []string{"C07"},
		Floor: 1, // search.(*treeList).DeleteKey, ComparisonEqual arm
		Doc: "in DeleteKey of the AVL tree every path through the ComparisonEqual arm of the descent loop calls markDeleted() on the " +
			"compared node before leaving the loop",
		Run: runMarkDeleted,
	})
}

func runMarkDeleted(c *Ctx) []Obligation {
	p := c.Pkg("search")
	if p == nil {
		return nil
	}
	info := p.TypesInfo
	equal, _ := p.Types.Scope().Lookup("ComparisonEqual").(*types.Const)
	if equal == nil {
		return nil
	}
	isEqualConst := func(e ast.Expr) bool {
		switch x := ast.Unparen(e).(type) {
		case *ast.Ident:
			return info.Uses[x] == equal
		case *ast.SelectorExpr:
			return info.Uses[x.Sel] == equal
		}
		return false
	}
	// node compared: first argument N.v of a call -> N
	comparedNode := func(e ast.Expr) ast.Expr {
		call, ok := ast.Unparen(e).(*ast.CallExpr)
		if !ok || len(call.Args) == 0 {
			return nil
		}
		if se, ok := ast.Unparen(call.Args[0]).(*ast.SelectorExpr); ok {
			if _, isPtr := info.TypeOf(se.X).(*types.Pointer); isPtr {
				return se.X
			}
		}
		return nil
	}
	var out []Obligation
	for _, fd := range c.FuncDecls(p) {
		if fd.Recv == nil || fd.Name.Name != "DeleteKey" {
			continue
		}
		name := c.FuncName(p, fd)
		type arm struct {
			stmt ast.Stmt // *ast.CaseClause or *ast.IfStmt
			kind cfg.BlockKind
			node ast.Expr
			loop ast.Stmt
		}
		var arms []arm
		innermostLoop := func(target ast.Node) ast.Stmt {
			var loop ast.Stmt
			for _, n := range enclosing(fd.Body, target) {
				switch n.(type) {
				case *ast.ForStmt, *ast.RangeStmt:
					if n != target {
						loop = n.(ast.Stmt)
					}
				}
			}
			return loop
		}
		inspectShallow(fd.Body, func(n ast.Node) bool {
			switch s := n.(type) {
			case *ast.SwitchStmt:
				for _, cl := range s.Body.List {
					cc := cl.(*ast.CaseClause)
					for _, e := range cc.List {
						if isEqualConst(e) {
							var node ast.Expr
							if s.Tag != nil {
								node = comparedNode(s.Tag)
							}
							arms = append(arms, arm{cc, cfg.KindSwitchCaseBody, node, innermostLoop(s)})
						}
					}
				}
			case *ast.IfStmt:
				if be, ok := ast.Unparen(s.Cond).(*ast.BinaryExpr); ok && be.Op == token.EQL {
					var other ast.Expr
					if isEqualConst(be.Y) {
						other = be.X
					} else if isEqualConst(be.X) {
						other = be.Y
					}
					if other != nil {
						node := comparedNode(other)
						if id, ok := ast.Unparen(other).(*ast.Ident); ok && node == nil {
							// c := cmp(N.v, k) ; if c == ComparisonEqual
							if obj := info.ObjectOf(id); obj != nil {
								inspectShallow(fd.Body, func(m ast.Node) bool {
									if as, ok := m.(*ast.AssignStmt); ok && len(as.Lhs) == 1 && len(as.Rhs) == 1 {
										if l, ok := as.Lhs[0].(*ast.Ident); ok && info.ObjectOf(l) == obj && node == nil {
											node = comparedNode(as.Rhs[0])
										}
									}
									return true
								})
							}
						}
						arms = append(arms, arm{s, cfg.KindIfThen, node, innermostLoop(s)})
					}
				}
			}
			return true
		})
		if len(arms) == 0 {
			continue
		}
		g := newCFG(info, fd.Body)
		for i, a := range arms {
			ob := Obligation{Key: gNthKey(name, i+1), Pos: c.Position(a.stmt.Pos())}
			if a.loop == nil {
				ob.Status, ob.Detail = Undecided, "the ComparisonEqual arm is not inside a loop"
				out = append(out, ob)
				continue
			}
			if a.node == nil {
				ob.Status, ob.Detail = Undecided, "cannot identify the compared node (expected the comparison's first argument to be N.v)"
				out = append(out, ob)
				continue
			}
			var entry *cfg.Block
			for _, b := range g.Blocks {
				if b.Kind == a.kind && b.Stmt == a.stmt {
					entry = b
				}
			}
			if entry == nil {
				ob.Status, ob.Detail = Undecided, "arm not found in the control-flow graph"
				out = append(out, ob)
				continue
			}
			nodeText_ := types.ExprString(a.node)
			nodeObj := gRootIdent(info, a.node)
			var markMethod *types.Func
			if n := namedOf(info.TypeOf(a.node)); n != nil {
				markMethod = gMethod(n, "markDeleted")
			}
			if markMethod == nil {
				ob.Status, ob.Detail = Undecided, fmt.Sprintf("the type of %s has no markDeleted method", nodeText_)
				out = append(out, ob)
				continue
			}
			isMark := func(call *ast.CallExpr) bool {
				if f := calleeFunc(info, call); f == nil || f.Origin() != markMethod {
					return false
				}
				se, ok := ast.Unparen(call.Fun).(*ast.SelectorExpr)
				return ok && sameExpr(info, se.X, a.node)
			}
			_, iter, done := gLoopBlocks(g, a.loop)
			s := &gSearch{c: c, info: info, exitBad: true,
				stopNode: func(n ast.Node) bool { return gContainsCall(n, isMark) },
				killNode: func(n ast.Node) string {
					if gAssigns(info, n, nodeObj) {
						return nodeText_ + " is re-assigned before it is marked"
					}
					return ""
				},
				badBlock: func(b *cfg.Block) string {
					if iter[b] {
						return fmt.Sprintf("starts the next iteration of the loop at %s without %s.markDeleted()", c.Position(a.loop.Pos()), nodeText_)
					}
					if b == done {
						return fmt.Sprintf("leaves the loop at %s without %s.markDeleted()", c.Position(a.loop.Pos()), nodeText_)
					}
					return ""
				},
			}
			if w := s.forward(entry, 0); w != nil {
				ob.Status = Violation
				ob.Detail = fmt.Sprintf("%s: a path through the ComparisonEqual arm at %s leaves the descent loop without calling %s.markDeleted()", name, c.Position(a.stmt.Pos()), nodeText_)
				ob.Path = append([]string{"enters the arm at " + c.Position(a.stmt.Pos())}, w...)
			} else {
				ob.Status = OK
				ob.Detail = fmt.Sprintf("every path through the ComparisonEqual arm calls %s.markDeleted() before leaving the loop", nodeText_)
			}
			out = append(out, ob)
		}
	}
	return out
}
