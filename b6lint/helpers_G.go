package main

// Helpers shared by the rules of group G (TOKEN-FORMAT, MERGE-ORDERED, TOKEN-TOTALITY,
// FILTER-AGREE, EXISTENTIAL-LOOP, PARENT-PAIRING, MARK-DELETED). All identifiers carry the
// group tag G.

import (
	"fmt"
	"go/ast"
	"go/constant"
	"go/token"
	"go/types"
	"strings"

	"golang.org/x/tools/go/cfg"
	"golang.org/x/tools/go/packages"
)

// ---------------------------------------------------------------------------------------
// Block-aware must-pass-through searches on go/cfg.

// gSearch explores a CFG from a location. A path is discharged when stopNode accepts a node
// or stopEdge accepts the edge it is about to take. A path becomes a witness when killNode
// names a reason, when it enters a block for which badBlock names a reason, or (forward only)
// when it reaches a normal function exit and exitBad is set; backward searches produce a
// witness when they reach the function entry (or step into a predecessor rejected by badBlock).
type gSearch struct {
	c        *Ctx
	info     *types.Info
	stopNode func(n ast.Node) bool
	killNode func(n ast.Node) string
	stopEdge func(from *cfg.Block, succ int) bool
	badBlock func(b *cfg.Block) string
	// stopBlock (forward only): entering this block discharges the path.
	stopBlock func(b *cfg.Block) bool
	exitBad   bool
}

func (s *gSearch) step(b *cfg.Block) string {
	if len(b.Nodes) > 0 {
		return fmt.Sprintf("%s (%s)", s.c.Position(b.Nodes[0].Pos()), b.Kind)
	}
	if b.Stmt != nil {
		return fmt.Sprintf("%s (%s)", s.c.Position(b.Stmt.Pos()), b.Kind)
	}
	return ""
}

func gAppendTrail(trail []string, step string) []string {
	t := append([]string(nil), trail...)
	if step != "" {
		t = append(t, step)
	}
	return t
}

// forward explores from node index idx (inclusive) of block start.
func (s *gSearch) forward(start *cfg.Block, idx int) []string {
	type item struct {
		b     *cfg.Block
		from  int
		trail []string
	}
	seen := map[*cfg.Block]bool{}
	work := []item{{start, idx, nil}}
	for len(work) > 0 {
		it := work[0]
		work = work[1:]
		discharged := false
		for i := it.from; i < len(it.b.Nodes); i++ {
			n := it.b.Nodes[i]
			if s.stopNode != nil && s.stopNode(n) {
				discharged = true
				break
			}
			if s.killNode != nil {
				if why := s.killNode(n); why != "" {
					return gAppendTrail(it.trail, fmt.Sprintf("%s at %s: %s", why, s.c.Position(n.Pos()), nodeText(s.c.Fset, n)))
				}
			}
		}
		if discharged {
			continue
		}
		if len(it.b.Succs) == 0 {
			if s.exitBad && isExitBlock(s.info, it.b) {
				where := "the end of the function"
				if len(it.b.Nodes) > 0 {
					last := it.b.Nodes[len(it.b.Nodes)-1]
					where = s.c.Position(last.Pos()) + " " + nodeText(s.c.Fset, last)
				}
				return gAppendTrail(it.trail, "leaves the function at "+where)
			}
			continue
		}
		for k, succ := range it.b.Succs {
			if s.stopEdge != nil && s.stopEdge(it.b, k) {
				continue
			}
			if s.stopBlock != nil && s.stopBlock(succ) {
				continue
			}
			if s.badBlock != nil {
				if why := s.badBlock(succ); why != "" {
					return gAppendTrail(it.trail, why)
				}
			}
			if seen[succ] {
				continue
			}
			seen[succ] = true
			work = append(work, item{succ, 0, gAppendTrail(it.trail, s.step(succ))})
		}
	}
	return nil
}

// backward explores from just before node index idx of block start towards the entry.
func (s *gSearch) backward(g *cfg.CFG, start *cfg.Block, idx int) []string {
	type pred struct {
		b *cfg.Block
		k int
	}
	preds := map[*cfg.Block][]pred{}
	for _, b := range g.Blocks {
		if !b.Live {
			continue
		}
		for k, succ := range b.Succs {
			preds[succ] = append(preds[succ], pred{b, k})
		}
	}
	type item struct {
		b     *cfg.Block
		upto  int // scan nodes upto-1 .. 0
		trail []string
	}
	seen := map[*cfg.Block]bool{}
	work := []item{{start, idx, nil}}
	for len(work) > 0 {
		it := work[0]
		work = work[1:]
		discharged := false
		for i := it.upto - 1; i >= 0; i-- {
			n := it.b.Nodes[i]
			if s.stopNode != nil && s.stopNode(n) {
				discharged = true
				break
			}
			if s.killNode != nil {
				if why := s.killNode(n); why != "" {
					return gAppendTrail(it.trail, fmt.Sprintf("%s at %s: %s", why, s.c.Position(n.Pos()), nodeText(s.c.Fset, n)))
				}
			}
		}
		if discharged {
			continue
		}
		if it.b == g.Blocks[0] {
			return gAppendTrail(it.trail, "reached from the function entry")
		}
		for _, p := range preds[it.b] {
			if s.stopEdge != nil && s.stopEdge(p.b, p.k) {
				continue
			}
			if s.badBlock != nil {
				if why := s.badBlock(p.b); why != "" {
					return gAppendTrail(it.trail, why)
				}
			}
			if seen[p.b] {
				continue
			}
			seen[p.b] = true
			work = append(work, item{p.b, len(p.b.Nodes), gAppendTrail(it.trail, s.step(p.b))})
		}
	}
	return nil
}

// gLoopBlocks returns the body block of a loop statement, the blocks that mean "next iteration"
// (post, head, or the body itself for a bare `for {}`) and the block after the loop.
func gLoopBlocks(g *cfg.CFG, loop ast.Stmt) (body *cfg.Block, iter map[*cfg.Block]bool, done *cfg.Block) {
	iter = map[*cfg.Block]bool{}
	var head, post *cfg.Block
	for _, b := range g.Blocks {
		if b.Stmt != loop {
			continue
		}
		switch b.Kind {
		case cfg.KindForBody, cfg.KindRangeBody:
			body = b
		case cfg.KindForLoop, cfg.KindRangeLoop:
			head = b
		case cfg.KindForPost:
			post = b
		case cfg.KindForDone, cfg.KindRangeDone:
			done = b
		}
	}
	if head != nil {
		iter[head] = true
	}
	if post != nil {
		iter[post] = true
	}
	if head == nil && post == nil && body != nil {
		iter[body] = true
	}
	return
}

// gInside reports whether a block belongs to the extent of the loop statement (its own done
// block excluded).
func gInside(b *cfg.Block, loop ast.Stmt) bool {
	if b.Stmt == loop {
		return b.Kind != cfg.KindForDone && b.Kind != cfg.KindRangeDone
	}
	if b.Stmt != nil {
		return loop.Pos() <= b.Stmt.Pos() && b.Stmt.End() <= loop.End()
	}
	if len(b.Nodes) > 0 {
		return loop.Pos() <= b.Nodes[0].Pos() && b.Nodes[0].End() <= loop.End()
	}
	return false
}

// gLoopBody returns the body of a for/range statement.
func gLoopBody(loop ast.Stmt) *ast.BlockStmt {
	switch l := loop.(type) {
	case *ast.ForStmt:
		return l.Body
	case *ast.RangeStmt:
		return l.Body
	}
	return nil
}

// gNilTest decomposes `X != nil` / `X == nil`; nilSucc is the index of the successor taken when
// X is nil (go/cfg: Succs[0] = condition true, Succs[1] = condition false).
func gNilTest(info *types.Info, n ast.Node) (x ast.Expr, nilSucc int, ok bool) {
	e, isExpr := n.(ast.Expr)
	if !isExpr {
		return nil, 0, false
	}
	be, isBin := ast.Unparen(e).(*ast.BinaryExpr)
	if !isBin || (be.Op != token.NEQ && be.Op != token.EQL) {
		return nil, 0, false
	}
	isNil := func(e ast.Expr) bool {
		tv, ok := info.Types[ast.Unparen(e)]
		return ok && tv.IsNil()
	}
	switch {
	case isNil(be.Y):
		x = be.X
	case isNil(be.X):
		x = be.Y
	default:
		return nil, 0, false
	}
	if be.Op == token.NEQ {
		return x, 1, true
	}
	return x, 0, true
}

// gCondOf returns the branching condition of a two-successor block (its last node).
func gCondOf(b *cfg.Block) ast.Node {
	if len(b.Succs) != 2 || len(b.Nodes) == 0 {
		return nil
	}
	return b.Nodes[len(b.Nodes)-1]
}

// gRootIdent returns the object of the left-most identifier of a selector/index/star chain.
func gRootIdent(info *types.Info, e ast.Expr) types.Object {
	for {
		switch x := ast.Unparen(e).(type) {
		case *ast.Ident:
			return info.ObjectOf(x)
		case *ast.SelectorExpr:
			e = x.X
		case *ast.IndexExpr:
			e = x.X
		case *ast.StarExpr:
			e = x.X
		case *ast.SliceExpr:
			e = x.X
		case *ast.CallExpr:
			if se, ok := ast.Unparen(x.Fun).(*ast.SelectorExpr); ok {
				e = se.X
				continue
			}
			return nil
		case *ast.TypeAssertExpr:
			e = x.X
		case *ast.UnaryExpr:
			e = x.X
		default:
			return nil
		}
	}
}

// gAssigns reports whether node n assigns (=, :=, op=, ++/--, range key/value is not a node)
// to the variable obj itself.
func gAssigns(info *types.Info, n ast.Node, obj types.Object) bool {
	if obj == nil {
		return false
	}
	switch s := n.(type) {
	case *ast.AssignStmt:
		for _, l := range s.Lhs {
			if id, ok := ast.Unparen(l).(*ast.Ident); ok && info.ObjectOf(id) == obj {
				return true
			}
		}
	case *ast.IncDecStmt:
		if id, ok := ast.Unparen(s.X).(*ast.Ident); ok && info.ObjectOf(id) == obj {
			return true
		}
	case *ast.ValueSpec:
		for _, id := range s.Names {
			if info.ObjectOf(id) == obj {
				return true
			}
		}
	}
	return false
}

// gContainsCall reports whether node n contains (outside function literals) a call accepted by f.
func gContainsCall(n ast.Node, f func(*ast.CallExpr) bool) bool {
	found := false
	inspectShallow(n, func(x ast.Node) bool {
		if found {
			return false
		}
		if call, ok := x.(*ast.CallExpr); ok && f(call) {
			found = true
			return false
		}
		return true
	})
	return found
}

// gNthKey renders pkg.Func#n.
func gNthKey(name string, n int) string { return fmt.Sprintf("%s#%d", name, n) }

// gFuncDisplay renders a types.Func as the engine renders declarations.
func (c *Ctx) gFuncDisplay(f *types.Func) string {
	if f == nil {
		return "<none>"
	}
	if fd, p := c.Decl(f); fd != nil {
		return c.FuncName(p, fd)
	}
	return f.FullName()
}

// ---------------------------------------------------------------------------------------
// Normalised string structures: a string-valued expression as a list of constant pieces and
// classified variable pieces, extracted from concatenations and fmt.Sprintf formats.

type gPiece struct {
	Const bool
	Text  string // constant value, or the canonical name of a variable piece
}

func gPiecesString(ps []gPiece) string {
	var out []string
	for _, p := range ps {
		if p.Const {
			out = append(out, fmt.Sprintf("%q", p.Text))
		} else {
			out = append(out, "<"+p.Text+">")
		}
	}
	if len(out) == 0 {
		return `""`
	}
	return strings.Join(out, " + ")
}

func gPiecesEqual(a, b []gPiece) bool {
	if len(a) != len(b) {
		return false
	}
	for i := range a {
		if a[i] != b[i] {
			return false
		}
	}
	return true
}

func gNormalise(ps []gPiece) []gPiece {
	var out []gPiece
	for _, p := range ps {
		if p.Const && p.Text == "" {
			continue
		}
		if p.Const && len(out) > 0 && out[len(out)-1].Const {
			out[len(out)-1].Text += p.Text
			continue
		}
		out = append(out, p)
	}
	return out
}

// gStringPieces decomposes a string expression. canon names a non-constant operand or
// returns "" when it does not recognise it (the whole decomposition then fails with why).
func gStringPieces(info *types.Info, e ast.Expr, canon func(ast.Expr) string) (ps []gPiece, why string) {
	e = ast.Unparen(e)
	if tv, ok := info.Types[e]; ok && tv.Value != nil && tv.Value.Kind() == constant.String {
		return []gPiece{{true, constant.StringVal(tv.Value)}}, ""
	}
	switch x := e.(type) {
	case *ast.BinaryExpr:
		if x.Op == token.ADD {
			l, why := gStringPieces(info, x.X, canon)
			if why != "" {
				return nil, why
			}
			r, why := gStringPieces(info, x.Y, canon)
			if why != "" {
				return nil, why
			}
			return gNormalise(append(l, r...)), ""
		}
	case *ast.CallExpr:
		if f := calleeFunc(info, x); f != nil && f.Pkg() != nil && f.Pkg().Path() == "fmt" && f.Name() == "Sprintf" && len(x.Args) >= 1 {
			tv, ok := info.Types[ast.Unparen(x.Args[0])]
			if !ok || tv.Value == nil || tv.Value.Kind() != constant.String {
				return nil, "fmt.Sprintf with a non-constant format"
			}
			format := constant.StringVal(tv.Value)
			args := x.Args[1:]
			var out []gPiece
			lit := ""
			for i := 0; i < len(format); i++ {
				ch := format[i]
				if ch != '%' {
					lit += string(ch)
					continue
				}
				if i+1 >= len(format) {
					return nil, "format ends in %"
				}
				i++
				switch format[i] {
				case '%':
					lit += "%"
				case 's', 'v':
					if len(args) == 0 {
						return nil, "format has more verbs than arguments"
					}
					out = append(out, gPiece{true, lit})
					lit = ""
					sub, why := gStringPieces(info, args[0], canon)
					if why != "" {
						return nil, why
					}
					args = args[1:]
					out = append(out, sub...)
				default:
					return nil, fmt.Sprintf("format verb %%%c is not one of %%s %%v", format[i])
				}
			}
			if len(args) != 0 {
				return nil, "format has fewer verbs than arguments"
			}
			out = append(out, gPiece{true, lit})
			return gNormalise(out), ""
		}
	}
	if name := canon(e); name != "" {
		return []gPiece{{false, name}}, ""
	}
	return nil, "operand " + types.ExprString(e) + " is not a recognised token piece"
}

// ---------------------------------------------------------------------------------------
// Spatial filter types: a query type Q of package b6 whose Compile returns &I{...} where I is a
// struct type of the same package with Next and Advance methods (a filtering iterator).

type gFilterPair struct {
	pkg     *packages.Package
	query   *types.Named
	iter    *types.Named
	matches *types.Func
	next    *types.Func
	advance *types.Func
}

func gMethod(n *types.Named, name string) *types.Func {
	for i := 0; i < n.NumMethods(); i++ {
		if m := n.Method(i); m.Name() == name {
			return m
		}
	}
	return nil
}

func gIsBoolFunc(f *types.Func) bool {
	sig, ok := f.Type().(*types.Signature)
	if !ok || sig.Results().Len() != 1 {
		return false
	}
	b, ok := sig.Results().At(0).Type().Underlying().(*types.Basic)
	return ok && b.Kind() == types.Bool
}

func (c *Ctx) gFilterPairs() []gFilterPair {
	p := c.Pkg("")
	if p == nil {
		return nil
	}
	var out []gFilterPair
	seen := map[*types.Named]bool{}
	for _, fd := range c.FuncDecls(p) {
		if fd.Recv == nil || fd.Name.Name != "Compile" {
			continue
		}
		fn, _ := p.TypesInfo.Defs[fd.Name].(*types.Func)
		if fn == nil {
			continue
		}
		q := namedOf(fn.Type().(*types.Signature).Recv().Type())
		if q == nil || seen[q] {
			continue
		}
		matches := gMethod(q, "Matches")
		if matches == nil || !gIsBoolFunc(matches) {
			continue
		}
		var iter *types.Named
		inspectShallow(fd.Body, func(n ast.Node) bool {
			rs, ok := n.(*ast.ReturnStmt)
			if !ok {
				return true
			}
			for _, r := range rs.Results {
				ue, ok := ast.Unparen(r).(*ast.UnaryExpr)
				if !ok || ue.Op != token.AND {
					continue
				}
				cl, ok := ast.Unparen(ue.X).(*ast.CompositeLit)
				if !ok {
					continue
				}
				n := namedOf(p.TypesInfo.TypeOf(cl))
				if n == nil || n.Obj().Pkg() != p.Types {
					continue
				}
				if _, isStruct := n.Underlying().(*types.Struct); !isStruct {
					continue
				}
				if gMethod(n, "Next") != nil && gMethod(n, "Advance") != nil {
					iter = n
				}
			}
			return true
		})
		if iter == nil {
			continue
		}
		seen[q] = true
		out = append(out, gFilterPair{p, q, iter, matches, gMethod(iter, "Next"), gMethod(iter, "Advance")})
	}
	return out
}
