package main

import (
	"fmt"
	"go/ast"
	"go/token"
	"go/types"
	"strings"

	"golang.org/x/tools/go/packages"
)

// FRESH-NODE (C19): the protobuf node a ToProto method returns belongs to the caller.
//
// Why: b6.Expression.ToProto takes the node its AnyExpression.ToProto returns and writes the
// expression's name and source positions into it. If two expressions hand out the same node
// (a package-level node, a node cached in the receiver), the last write wins and every earlier
// expression in the tree loses its own name and positions (and concurrent conversions race).
//
// Slots (by shape): the *mutated message types* are the proto message types M for which some
// function of the module assigns to a field of a value it obtained from a call of a method named
// ToProto (`p, err := x.ToProto(); p.Name = ...` — today b6.Expression.ToProto, M = NodeProto).
// Instances: every method named ToProto, in any module package, whose first result is *M.
//
// Obligation: on every return, the first result is freshly allocated or nil:
//   - `&pb.M{...}` or `new(pb.M)`;
//   - nil;
//   - the result of a call: of an interface method or a function outside the module (the
//     implementations carry their own obligation; library constructors allocate), or of a module
//     function whose own returns satisfy this obligation (depth <= 3);
//   - a local variable every assignment of which is one of the above.
//
// A package-level variable, a field of the receiver or of any other value, a parameter, or a local
// assigned from one of those is a violation (shared node). Anything else is `undecided`.
func init() {
	register(&Rule{
		Name:  "FRESH-NODE",
		IR:    "ast",
		Props: []string{"C19"},
		Floor: 21, // the 21 ToProto methods of the root package that return *pb.NodeProto
		Doc: "every ToProto method whose result type is a protobuf message that callers write into after the call (Expression.ToProto writes name and positions into the *pb.NodeProto it receives) " +
			"returns a freshly allocated message or nil on every path, never a package-level, cached or otherwise shared one",
		Run: runFreshNode,
	})
}

type jfChecker struct {
	c    *Ctx
	busy map[*types.Func]bool
}

// fresh classifies an expression: "" fresh; otherwise (shared?, reason).
func (k *jfChecker) fresh(p *packages.Package, fd *ast.FuncDecl, e ast.Expr, depth int, seen map[types.Object]bool) (shared bool, why string) {
	info := p.TypesInfo
	e = ast.Unparen(e)
	if tv, ok := info.Types[e]; ok && tv.IsNil() {
		return false, ""
	}
	switch x := e.(type) {
	case *ast.UnaryExpr:
		if x.Op == token.AND {
			if _, ok := ast.Unparen(x.X).(*ast.CompositeLit); ok {
				return false, ""
			}
			return true, "address of the existing value " + types.ExprString(x.X)
		}
	case *ast.CallExpr:
		if isBuiltin(info, x, "new") {
			return false, ""
		}
		f := calleeFunc(info, x)
		if f == nil {
			return false, "result of a dynamic call " + types.ExprString(x.Fun)
		}
		cfd, cp := k.c.Decl(f)
		if cfd == nil || cfd.Body == nil {
			return false, "" // interface method or library function
		}
		if depth >= 3 {
			return false, "call depth exceeded at " + f.FullName()
		}
		if k.busy[f] {
			return false, ""
		}
		k.busy[f] = true
		defer delete(k.busy, f)
		return k.returnsFresh(cp, cfd, depth+1)
	case *ast.Ident:
		obj := info.ObjectOf(x)
		v, ok := obj.(*types.Var)
		if !ok {
			return false, types.ExprString(e) + " is not a variable"
		}
		if v.Pkg() != nil && v.Parent() == v.Pkg().Scope() {
			return true, "the package-level variable " + x.Name + " (declared at " + k.c.Position(v.Pos()) + ")"
		}
		if jfIsParamOrRecv(info, fd, obj) {
			return true, "the parameter or receiver " + x.Name
		}
		if seen[obj] {
			return false, ""
		}
		seen[obj] = true
		// every assignment of the local
		var res struct {
			shared bool
			why    string
		}
		n := 0
		ast.Inspect(fd.Body, func(nd ast.Node) bool {
			if res.why != "" {
				return false
			}
			switch s := nd.(type) {
			case *ast.AssignStmt:
				for i, l := range s.Lhs {
					id, ok := l.(*ast.Ident)
					if !ok || info.ObjectOf(id) != obj {
						continue
					}
					n++
					var rhs ast.Expr
					if len(s.Rhs) == len(s.Lhs) {
						rhs = s.Rhs[i]
					} else if len(s.Rhs) == 1 && i == 0 {
						rhs = s.Rhs[0] // p, err := f(): the first result
					} else {
						res.why = "assignment shape at " + k.c.Position(s.Pos())
						return false
					}
					res.shared, res.why = k.fresh(p, fd, rhs, depth, seen)
				}
			case *ast.ValueSpec:
				for i, name := range s.Names {
					if info.ObjectOf(name) != obj {
						continue
					}
					n++
					if len(s.Values) == 0 {
						continue // zero value: nil pointer
					}
					if i < len(s.Values) {
						res.shared, res.why = k.fresh(p, fd, s.Values[i], depth, seen)
					}
				}
			case *ast.UnaryExpr:
				if id, ok := ast.Unparen(s.X).(*ast.Ident); ok && s.Op == token.AND && info.ObjectOf(id) == obj {
					res.why = "address of " + x.Name + " taken at " + k.c.Position(s.Pos())
				}
			}
			return true
		})
		if res.why != "" {
			return res.shared, res.why
		}
		if n == 0 {
			return false, "no assignment of " + x.Name + " found"
		}
		return false, ""
	case *ast.SelectorExpr:
		if sel, ok := info.Selections[x]; ok && sel.Kind() == types.FieldVal {
			return true, "the field " + types.ExprString(x) + " of an existing value"
		}
		if v, ok := info.ObjectOf(x.Sel).(*types.Var); ok && v.Pkg() != nil && v.Parent() == v.Pkg().Scope() {
			return true, "the package-level variable " + types.ExprString(x)
		}
	case *ast.IndexExpr:
		return true, "the element " + types.ExprString(x) + " of an existing collection"
	}
	return false, "expression " + types.ExprString(e) + " of unknown origin"
}

func jfIsParamOrRecv(info *types.Info, fd *ast.FuncDecl, obj types.Object) bool {
	check := func(fl *ast.FieldList) bool {
		if fl == nil {
			return false
		}
		for _, f := range fl.List {
			for _, n := range f.Names {
				if info.Defs[n] == obj {
					return true
				}
			}
		}
		return false
	}
	return check(fd.Recv) || check(fd.Type.Params)
}

// returnsFresh checks every return of fd (not those of nested function literals).
func (k *jfChecker) returnsFresh(p *packages.Package, fd *ast.FuncDecl, depth int) (bool, string) {
	shared, why := false, ""
	n := 0
	inspectShallow(fd.Body, func(nd ast.Node) bool {
		r, ok := nd.(*ast.ReturnStmt)
		if !ok || why != "" {
			return true
		}
		n++
		if len(r.Results) == 0 {
			why = "bare return at " + k.c.Position(r.Pos())
			return true
		}
		s, w := k.fresh(p, fd, r.Results[0], depth, map[types.Object]bool{})
		if w != "" {
			shared, why = s, fmt.Sprintf("%s returns %s", k.c.Position(r.Pos()), w)
		}
		return true
	})
	if why == "" && n == 0 && jFallsThrough(p.TypesInfo, fd.Body.List) {
		why = "no return statement"
	}
	return shared, why
}

func runFreshNode(c *Ctx) []Obligation {
	// mutated message types
	mutated := map[*types.TypeName][]string{}
	for _, p := range c.SortedPkgs() {
		info := p.TypesInfo
		for _, fd := range c.FuncDecls(p) {
			if jGenerated(c, fd.Pos()) {
				continue
			}
			fromToProto := map[types.Object]bool{}
			ast.Inspect(fd.Body, func(n ast.Node) bool {
				as, ok := n.(*ast.AssignStmt)
				if !ok || len(as.Rhs) != 1 {
					return true
				}
				call, ok := ast.Unparen(as.Rhs[0]).(*ast.CallExpr)
				if !ok {
					return true
				}
				if f := calleeFunc(info, call); f != nil && f.Name() == "ToProto" && f.Type().(*types.Signature).Recv() != nil {
					if id, ok := as.Lhs[0].(*ast.Ident); ok && id.Name != "_" {
						fromToProto[info.ObjectOf(id)] = true
					}
				}
				return true
			})
			if len(fromToProto) == 0 {
				continue
			}
			ast.Inspect(fd.Body, func(n ast.Node) bool {
				as, ok := n.(*ast.AssignStmt)
				if !ok {
					return true
				}
				for _, l := range as.Lhs {
					sel, ok := ast.Unparen(l).(*ast.SelectorExpr)
					if !ok {
						continue
					}
					id, ok := ast.Unparen(sel.X).(*ast.Ident)
					if !ok || !fromToProto[info.ObjectOf(id)] {
						continue
					}
					if m := namedOf(info.TypeOf(id)); m != nil && m.Obj().Pkg() != nil && m.Obj().Pkg().Path() == ModulePath+"/proto" {
						site := fmt.Sprintf("%s (%s)", c.FuncName(p, fd), c.Position(fd.Pos()))
						if ms := mutated[m.Obj()]; len(ms) == 0 || ms[len(ms)-1] != site {
							mutated[m.Obj()] = append(ms, site)
						}
					}
				}
				return true
			})
		}
	}
	if len(mutated) == 0 {
		return nil // the floor reports the missing anchor
	}
	var out []Obligation
	k := &jfChecker{c: c, busy: map[*types.Func]bool{}}
	for _, p := range c.SortedPkgs() {
		for _, fd := range c.FuncDecls(p) {
			if fd.Recv == nil || fd.Name.Name != "ToProto" || jGenerated(c, fd.Pos()) {
				continue
			}
			sig := p.TypesInfo.Defs[fd.Name].Type().(*types.Signature)
			if sig.Results().Len() == 0 {
				continue
			}
			ptr, ok := sig.Results().At(0).Type().(*types.Pointer)
			if !ok {
				continue
			}
			m := namedOf(ptr)
			if m == nil || mutated[m.Obj()] == nil {
				continue
			}
			ob := Obligation{Key: c.FuncName(p, fd) + "#1", Pos: c.Position(fd.Pos())}
			shared, why := k.returnsFresh(p, fd, 0)
			switch {
			case why == "":
				ob.Status = OK
				ob.Detail = fmt.Sprintf("every return hands out a new *%s (or nil)", m.Obj().Name())
			case shared:
				ob.Status = Violation
				ob.Detail = fmt.Sprintf("%s: a shared *%s; %s writes into the node it gets back, so expressions that share the node overwrite each other's name and positions",
					why, m.Obj().Name(), strings.Join(mutated[m.Obj()], ", "))
			default:
				ob.Status = Undecided
				ob.Detail = why
			}
			out = append(out, ob)
		}
	}
	return out
}
