package main

import (
	"fmt"
	"go/ast"
	"go/token"
	"go/types"
	"sort"
	"strings"

	"golang.org/x/tools/go/cfg"
	"golang.org/x/tools/go/packages"
)

// CHECK-THEN-ACT (C40): a registry map guarded by its owner's mutex is read, written and
// extended atomically.
//
// Slot (by type): named struct types of packages ingest, api, grpc, ui that own a sync.Mutex or
// sync.RWMutex field (by value) and at least one field of map type (today: ingest.MutableWorlds
// with lock/Mutable). Instances are the functions of the module that access such a map field
// through a selector `b.F` (composite-literal initialisation is construction, not access; a base
// that is a local freshly built by a composite literal in the same function is not shared yet).
//
// Obligations, per function, on go/cfg with a lock typestate {none, R, W} for the owner's lock
// taken on the same base expression (Lock → W, RLock → R, Unlock/RUnlock → none; a deferred
// unlock keeps the lock to the end):
//   - #held: every write of the map (`b.F[k] = v`, `b.F[k] op= v`, `delete(b.F, k)`, `clear`,
//     assignment to the field itself) happens in W, every read (index, comma-ok lookup, len,
//     range, comparison with nil) in R or W;
//   - #insert<N>: the N-th store `b.F[k] = v` of a value created in the function (a call, a
//     composite literal, make/new, or a local assigned from one) — create-if-absent — is
//     control dependent on the "absent" outcome of a lookup of the same map with the same key
//     (`x, ok := b.F[k]` tested by `!ok`/`ok`, or `x := b.F[k]` tested by `x == nil`/`x != nil`;
//     the if statement's absent edge dominates the store, also in the early-return form
//     `if ok { return x }`), the key is not assigned in between, and no Unlock/RUnlock lies on
//     a path from that lookup to the store (same critical section). A lookup made under the read
//     lock followed by RUnlock, Lock and an unconditional create+store is the violation this
//     rule exists for: two clients that miss together register two values for one key.
//
// Accepted idioms: `lock.Lock(); defer lock.Unlock()` around the whole method; double-checked
// locking (a second lookup inside the write section satisfies #insert). Undecided: the map field
// handed to another function or stored elsewhere, accesses through different base expressions in
// one function, TryLock.
func init() {
	register(&Rule{
		Name:  "CHECK-THEN-ACT",
		IR:    "cfg",
		Props: []string{"C40", "C36", "C35", "C01"},
		// C40: ingest.(*MutableWorlds).FindOrCreateWorld#held, #insert1, #stale, ListWorlds#held, DeleteWorld#held
		// C36/C35 (#stale): ingest/compact.(*Validator).ValidatePath, (*Validator).ValidateArea, (*NamespacedCounts).Namespace, encoding.(*StringTableBuilder).Write
		Floor: 3,
		// C01/C36/C35 (#order): ingest/compact.(*Validator).ValidatePath
		FloorBy: map[string]int{"C40": 5, "C36": 5, "C35": 5, "C01": 1},
		Doc: "for struct types of ingest/api/grpc/ui that own a sync.Mutex/RWMutex and a map field: every store/delete on the map happens with the lock exclusively held and every read with it held; " +
			"a store that registers a value created in the function is control dependent on the absent outcome of a lookup of the same map and key made in the same critical section (no Unlock/RUnlock between lookup and store); " +
			"#stale, for every such type of the module (ingest/compact.Validator, NamespacedCounts, …): an action on the owner's state (store, delete, drain) that is decided by a read of a guarded map is not separated " +
			"from that read by a release of the lock, unless a fresh read of the same map and key in the later critical section decides it too; " +
			"#order: within one critical section, a call of an owner method that reads guarded map M and is decided by a lookup of M[k] is preceded on every path by the function's store M[k] = … (the drain triggered by k's arrival sees k's new state)",
		Run: runCheckThenAct,
	})
}

var iCTAPkgs = []string{"ingest", "api", "grpc", "ui"}

type iGuardedType struct {
	named *types.Named
	locks map[*types.Var]bool
	maps  map[*types.Var]bool
}

func iIsMutexType(t types.Type) bool {
	n, ok := t.(*types.Named)
	if !ok || n.Obj().Pkg() == nil || n.Obj().Pkg().Path() != "sync" {
		return false
	}
	return n.Obj().Name() == "Mutex" || n.Obj().Name() == "RWMutex"
}

func runCheckThenAct(c *Ctx) []Obligation {
	// guarded types and their fields: every package of the module; the #held/#insert clauses keep
	// their slot (types of ingest, api, grpc, ui), the #stale clause covers all of them
	legacyPkg := map[string]bool{}
	for _, rel := range iCTAPkgs {
		legacyPkg[rel] = true
	}
	mapOwner := map[*types.Var]*iGuardedType{}
	lockOwner := map[*types.Var]*iGuardedType{}
	legacyMapOwner := map[*types.Var]*iGuardedType{}
	legacyLockOwner := map[*types.Var]*iGuardedType{}
	allFields := map[*iGuardedType]map[*types.Var]bool{}
	ownerRel := map[*iGuardedType]string{}
	for _, p := range c.SortedPkgs() {
		scope := p.Types.Scope()
		for _, name := range scope.Names() {
			tn, ok := scope.Lookup(name).(*types.TypeName)
			if !ok {
				continue
			}
			named, ok := tn.Type().(*types.Named)
			if !ok {
				continue
			}
			st, ok := named.Underlying().(*types.Struct)
			if !ok {
				continue
			}
			gt := &iGuardedType{named: named, locks: map[*types.Var]bool{}, maps: map[*types.Var]bool{}}
			fields := map[*types.Var]bool{}
			for i := 0; i < st.NumFields(); i++ {
				f := st.Field(i)
				if iIsMutexType(f.Type()) {
					gt.locks[f] = true
					continue
				}
				fields[f] = true
				if _, isMap := f.Type().Underlying().(*types.Map); isMap {
					gt.maps[f] = true
				}
			}
			if len(gt.locks) > 0 && len(gt.maps) > 0 {
				allFields[gt] = fields
				ownerRel[gt] = relPkg(p)
				for f := range gt.maps {
					mapOwner[f] = gt
					if legacyPkg[relPkg(p)] {
						legacyMapOwner[f] = gt
					}
				}
				for f := range gt.locks {
					lockOwner[f] = gt
					if legacyPkg[relPkg(p)] {
						legacyLockOwner[f] = gt
					}
				}
			}
		}
	}
	if len(mapOwner) == 0 {
		return nil
	}
	methodCache := map[*iGuardedType]*iOwnerMethods{}
	methods := func(gt *iGuardedType) *iOwnerMethods {
		if m, ok := methodCache[gt]; ok {
			return m
		}
		m := iCTAOwnerMethods(c, gt, allFields[gt])
		methodCache[gt] = m
		return m
	}
	ownerFields := func(gt *iGuardedType) map[*types.Var]bool { return allFields[gt] }
	var out []Obligation
	for _, p := range c.SortedPkgs() {
		for _, fd := range c.FuncDecls(p) {
			if len(legacyMapOwner) > 0 {
				for _, ob := range iCTAFunc(c, p, fd, legacyMapOwner, legacyLockOwner) {
					ob.Props = []string{"C40"}
					out = append(out, ob)
				}
			}
			for _, ob := range iCTAStaleFunc(c, p, fd, mapOwner, lockOwner, methods, ownerFields) {
				// the request-serving registries serve C40; the parallel build state of
				// ingest/compact (and anything else) serves C36 and C35
				ob.Props = []string{"C36", "C35"}
				if strings.HasSuffix(ob.Key, "#order") {
					// a drain that misses the arriving key loses features of the compact index: C01 as well
					ob.Props = []string{"C01", "C36", "C35"}
				}
				if legacyPkg[relPkg(p)] {
					ob.Props = []string{"C40"}
				}
				out = append(out, ob)
			}
		}
	}
	return out
}

type iCTAAccess struct {
	sel    *ast.SelectorExpr // b.F
	write  bool
	what   string
	node   ast.Node        // enclosing statement/expression used to find the CFG node
	store  *ast.AssignStmt // for b.F[k] = v
	key    ast.Expr
	val    ast.Expr
	lookup *iCTALookup
	escape bool
}

type iCTALookup struct {
	stmt ast.Node
	key  ast.Expr
	ok   types.Object // comma-ok variable, or nil
	val  types.Object // looked-up value variable, or nil
}

func iCTAFunc(c *Ctx, p *packages.Package, fd *ast.FuncDecl, mapOwner, lockOwner map[*types.Var]*iGuardedType) []Obligation {
	info := p.TypesInfo
	fieldOf := func(sel *ast.SelectorExpr) *types.Var {
		if s := info.Selections[sel]; s != nil && s.Kind() == types.FieldVal {
			v, _ := s.Obj().(*types.Var)
			return v
		}
		return nil
	}
	// quick scan
	found := false
	ast.Inspect(fd.Body, func(n ast.Node) bool {
		if sel, ok := n.(*ast.SelectorExpr); ok {
			if f := fieldOf(sel); f != nil && mapOwner[f] != nil {
				found = true
			}
		}
		return !found
	})
	if !found {
		return nil
	}
	name := c.FuncName(p, fd)

	// parents, to classify each occurrence of b.F
	parent := map[ast.Node]ast.Node{}
	var stack []ast.Node
	ast.Inspect(fd.Body, func(n ast.Node) bool {
		if n == nil {
			stack = stack[:len(stack)-1]
			return true
		}
		if len(stack) > 0 {
			parent[n] = stack[len(stack)-1]
		}
		stack = append(stack, n)
		return true
	})
	up := func(n ast.Node) ast.Node {
		q := parent[n]
		for {
			if pe, ok := q.(*ast.ParenExpr); ok {
				q = parent[pe]
				continue
			}
			return q
		}
	}
	inLiteral := func(n ast.Node) bool {
		for q := parent[n]; q != nil; q = parent[q] {
			if _, ok := q.(*ast.FuncLit); ok {
				return true
			}
		}
		return false
	}

	var accesses []*iCTAAccess
	var owner *iGuardedType
	var base ast.Expr
	var problems []string
	ast.Inspect(fd.Body, func(n ast.Node) bool {
		sel, ok := n.(*ast.SelectorExpr)
		if !ok {
			return true
		}
		f := fieldOf(sel)
		if f == nil || mapOwner[f] == nil {
			return true
		}
		if owner == nil {
			owner, base = mapOwner[f], sel.X
		} else if mapOwner[f] != owner || !sameExpr(info, base, sel.X) {
			problems = append(problems, fmt.Sprintf("the map is accessed through different bases (%s and %s at %s)", types.ExprString(base), types.ExprString(sel.X), c.Position(sel.Pos())))
		}
		if inLiteral(sel) {
			problems = append(problems, fmt.Sprintf("%s is accessed inside a function literal at %s", types.ExprString(sel), c.Position(sel.Pos())))
		}
		a := &iCTAAccess{sel: sel, node: sel, what: "read " + types.ExprString(sel)}
		switch q := up(sel).(type) {
		case *ast.IndexExpr:
			if ast.Unparen(q.X) == ast.Expr(sel) {
				a.key = q.Index
				a.node = q
				a.what = "read " + types.ExprString(q)
				switch r := up(q).(type) {
				case *ast.AssignStmt:
					isLHS := false
					for i, l := range r.Lhs {
						if ast.Unparen(l) == ast.Expr(q) {
							isLHS = true
							if len(r.Lhs) == len(r.Rhs) {
								a.val = r.Rhs[i]
							}
						}
					}
					if isLHS {
						a.write, a.store, a.node = true, r, r
						a.what = "store " + nodeText(c.Fset, r)
						if r.Tok != token.ASSIGN {
							a.store = nil // op=: an update of an existing entry, not a registration
						}
					} else if len(r.Rhs) == 1 && ast.Unparen(r.Rhs[0]) == ast.Expr(q) {
						lk := &iCTALookup{stmt: r, key: q.Index}
						if id, ok := r.Lhs[0].(*ast.Ident); ok && id.Name != "_" {
							lk.val = info.ObjectOf(id)
						}
						if len(r.Lhs) == 2 {
							if id, ok := r.Lhs[1].(*ast.Ident); ok && id.Name != "_" {
								lk.ok = info.ObjectOf(id)
							}
						}
						a.lookup, a.node = lk, r
					}
				case *ast.IncDecStmt:
					a.write, a.node = true, r
					a.what = "update " + types.ExprString(q)
				case *ast.ValueSpec:
					if len(r.Values) == 1 && ast.Unparen(r.Values[0]) == ast.Expr(q) {
						lk := &iCTALookup{stmt: r, key: q.Index}
						if r.Names[0].Name != "_" {
							lk.val = info.ObjectOf(r.Names[0])
						}
						if len(r.Names) == 2 && r.Names[1].Name != "_" {
							lk.ok = info.ObjectOf(r.Names[1])
						}
						a.lookup = lk
					}
				}
			}
		case *ast.AssignStmt:
			for _, l := range q.Lhs {
				if ast.Unparen(l) == ast.Expr(sel) {
					a.write, a.node = true, q
					a.what = "assignment " + nodeText(c.Fset, q)
				}
			}
			if !a.write {
				a.escape = true
			}
		case *ast.CallExpr:
			switch {
			case isBuiltin(info, q, "delete") || isBuiltin(info, q, "clear"):
				a.write, a.node = true, q
				a.what = nodeText(c.Fset, q)
			case isBuiltin(info, q, "len"):
				a.node = q
				a.what = "read " + types.ExprString(q)
			default:
				a.escape = true
			}
		case *ast.RangeStmt:
			a.what = "range over " + types.ExprString(sel)
		case *ast.BinaryExpr:
			a.node = q
			a.what = "read " + types.ExprString(q)
		default:
			a.escape = true
		}
		if a.escape {
			problems = append(problems, fmt.Sprintf("%s is handed on or stored at %s: accesses through the alias are not followed", types.ExprString(sel), c.Position(sel.Pos())))
		}
		accesses = append(accesses, a)
		return true
	})
	if owner == nil {
		return nil
	}
	// construction: the base is a local built by a composite literal in this function
	if id, ok := ast.Unparen(base).(*ast.Ident); ok {
		fresh := false
		ast.Inspect(fd.Body, func(n ast.Node) bool {
			if as, ok := n.(*ast.AssignStmt); ok && len(as.Lhs) == len(as.Rhs) {
				for i, l := range as.Lhs {
					if lid, ok := l.(*ast.Ident); ok && info.ObjectOf(lid) == info.ObjectOf(id) {
						r := ast.Unparen(as.Rhs[i])
						if u, ok := r.(*ast.UnaryExpr); ok && u.Op == token.AND {
							r = ast.Unparen(u.X)
						}
						if _, ok := r.(*ast.CompositeLit); ok {
							fresh = true
						}
					}
				}
			}
			return true
		})
		if fresh {
			return []Obligation{{Key: name + "#held", Pos: c.Position(accesses[0].sel.Pos()), Status: OK,
				Detail: fmt.Sprintf("%s is built in this function by a composite literal: filling its map is construction, before the value is shared", types.ExprString(base))}}
		}
	}

	// lock typestate over the CFG
	g := newCFG(info, fd.Body)
	const (
		sN = 1 << iota
		sR
		sW
	)
	stateName := func(s int) string {
		var parts []string
		if s&sN != 0 {
			parts = append(parts, "none")
		}
		if s&sR != 0 {
			parts = append(parts, "R")
		}
		if s&sW != 0 {
			parts = append(parts, "W")
		}
		if len(parts) == 0 {
			return "unreachable"
		}
		return strings.Join(parts, "|")
	}
	type lockEv struct {
		op       string
		deferred bool
		call     *ast.CallExpr
	}
	lockEvents := func(n ast.Node) []lockEv {
		var evs []lockEv
		_, isDefer := n.(*ast.DeferStmt)
		inspectShallow(n, func(x ast.Node) bool {
			call, ok := x.(*ast.CallExpr)
			if !ok {
				return true
			}
			sel, ok := ast.Unparen(call.Fun).(*ast.SelectorExpr)
			if !ok {
				return true
			}
			lsel, ok := ast.Unparen(sel.X).(*ast.SelectorExpr)
			if !ok {
				return true
			}
			lf := fieldOf(lsel)
			if lf == nil || lockOwner[lf] != owner {
				return true
			}
			if !sameExpr(info, lsel.X, base) {
				problems = append(problems, fmt.Sprintf("%s at %s locks another instance than %s", nodeText(c.Fset, call), c.Position(call.Pos()), types.ExprString(base)))
				return true
			}
			switch sel.Sel.Name {
			case "Lock", "Unlock", "RLock", "RUnlock":
				evs = append(evs, lockEv{sel.Sel.Name, isDefer, call})
			default:
				problems = append(problems, fmt.Sprintf("%s at %s: lock idiom not known", nodeText(c.Fset, call), c.Position(call.Pos())))
			}
			return true
		})
		return evs
	}
	step := func(s int, ev lockEv) int {
		if ev.deferred {
			return s // runs at function exit
		}
		switch ev.op {
		case "Lock":
			return sW
		case "RLock":
			return sR
		default:
			return sN
		}
	}
	in := map[*cfg.Block]int{}
	if len(g.Blocks) > 0 {
		in[g.Blocks[0]] = sN
		work := []*cfg.Block{g.Blocks[0]}
		for len(work) > 0 {
			b := work[0]
			work = work[1:]
			cur := in[b]
			for _, n := range b.Nodes {
				for _, ev := range lockEvents(n) {
					cur = step(cur, ev)
				}
			}
			for _, s := range b.Succs {
				if in[s]|cur != in[s] {
					in[s] |= cur
					work = append(work, s)
				}
			}
		}
	}
	problems = iUniqueStrings(problems)
	// state before a node (lock events inside the node itself come first only if they precede it;
	// statements here never mix a lock call with a map access)
	stateAt := func(n ast.Node) (int, nodeLoc, bool) {
		loc, ok := findNode(g, n)
		if !ok {
			return 0, loc, false
		}
		cur := in[loc.b]
		for i := 0; i < loc.i; i++ {
			for _, ev := range lockEvents(loc.b.Nodes[i]) {
				cur = step(cur, ev)
			}
		}
		return cur, loc, true
	}
	// reachability between CFG positions
	type pos struct {
		b *cfg.Block
		i int
	}
	reach := func(from nodeLoc) map[pos]bool {
		seen := map[pos]bool{}
		seenB := map[*cfg.Block]bool{}
		for i := from.i + 1; i < len(from.b.Nodes); i++ {
			seen[pos{from.b, i}] = true
		}
		work := append([]*cfg.Block(nil), from.b.Succs...)
		for len(work) > 0 {
			b := work[0]
			work = work[1:]
			if seenB[b] {
				continue
			}
			seenB[b] = true
			for i := range b.Nodes {
				seen[pos{b, i}] = true
			}
			work = append(work, b.Succs...)
		}
		return seen
	}

	var out []Obligation
	// #held
	{
		ob := Obligation{Key: name + "#held", Pos: c.Position(accesses[0].sel.Pos())}
		var bad, listing []string
		for _, a := range accesses {
			st, _, ok := stateAt(a.node)
			if !ok {
				problems = append(problems, a.what+" at "+c.Position(a.sel.Pos())+" was not found in the control-flow graph")
				continue
			}
			listing = append(listing, fmt.Sprintf("%s %s [%s]", c.Position(a.sel.Pos()), a.what, stateName(st)))
			switch {
			case a.write && st != sW:
				bad = append(bad, fmt.Sprintf("%s at %s happens in lock state %s, needs the lock exclusively held", a.what, c.Position(a.sel.Pos()), stateName(st)))
			case !a.write && st&sN != 0:
				bad = append(bad, fmt.Sprintf("%s at %s happens in lock state %s, needs the lock held", a.what, c.Position(a.sel.Pos()), stateName(st)))
			}
		}
		ownerName := owner.named.Obj().Name()
		switch {
		case len(bad) > 0:
			ob.Status = Violation
			ob.Detail = fmt.Sprintf("map of %s accessed without its lock: %s", ownerName, bad[0])
			ob.Path = append(bad, listing...)
		case len(problems) > 0:
			problems = iUniqueStrings(problems)
			ob.Status = Undecided
			ob.Detail = problems[0]
			ob.Path = problems
		default:
			ob.Status = OK
			ob.Detail = fmt.Sprintf("every access of the map of %s happens with %s's lock held in the needed mode: %s", ownerName, types.ExprString(base), strings.Join(listing, ", "))
		}
		out = append(out, ob)
	}
	// #insert<N>
	isFreshExpr := func(e ast.Expr) bool {
		switch x := ast.Unparen(e).(type) {
		case *ast.CallExpr:
			// a conversion is not a creation
			if tv, ok := info.Types[x.Fun]; ok && tv.IsType() {
				return false
			}
			return true
		case *ast.CompositeLit:
			return true
		case *ast.UnaryExpr:
			if x.Op == token.AND {
				_, ok := ast.Unparen(x.X).(*ast.CompositeLit)
				return ok
			}
		}
		return false
	}
	isFresh := func(e ast.Expr) bool {
		if isFreshExpr(e) {
			return true
		}
		id, ok := ast.Unparen(e).(*ast.Ident)
		if !ok {
			return false
		}
		o := info.ObjectOf(id)
		fresh := false
		ast.Inspect(fd.Body, func(n ast.Node) bool {
			if as, ok := n.(*ast.AssignStmt); ok && len(as.Lhs) == len(as.Rhs) {
				for i, l := range as.Lhs {
					if lid, ok := l.(*ast.Ident); ok && info.ObjectOf(lid) == o && isFreshExpr(as.Rhs[i]) {
						fresh = true
					}
				}
			}
			return true
		})
		return fresh
	}
	assignedObjs := func(n ast.Node) map[types.Object]bool {
		m := map[types.Object]bool{}
		inspectShallow(n, func(x ast.Node) bool {
			switch s := x.(type) {
			case *ast.AssignStmt:
				for _, l := range s.Lhs {
					if id, ok := ast.Unparen(l).(*ast.Ident); ok {
						m[info.ObjectOf(id)] = true
					}
				}
			case *ast.IncDecStmt:
				if id, ok := ast.Unparen(s.X).(*ast.Ident); ok {
					m[info.ObjectOf(id)] = true
				}
			}
			return true
		})
		return m
	}
	keyObjs := func(e ast.Expr) []types.Object {
		var os []types.Object
		ast.Inspect(e, func(n ast.Node) bool {
			if id, ok := n.(*ast.Ident); ok {
				if v, ok := info.ObjectOf(id).(*types.Var); ok {
					os = append(os, v)
				}
			}
			return true
		})
		return os
	}
	dom, preds := iDominators(g)
	nIns := 0
	sort.SliceStable(accesses, func(i, j int) bool { return accesses[i].sel.Pos() < accesses[j].sel.Pos() })
	for _, a := range accesses {
		if a.store == nil || a.val == nil || !isFresh(a.val) {
			continue
		}
		nIns++
		ob := Obligation{Key: fmt.Sprintf("%s#insert%d", name, nIns), Pos: c.Position(a.store.Pos())}
		what := fmt.Sprintf("%s registers a value created in the function", nodeText(c.Fset, a.store))
		_, sloc, ok := stateAt(a.store)
		if !ok {
			ob.Status, ob.Detail = Undecided, what+": the store was not found in the control-flow graph"
			out = append(out, ob)
			continue
		}
		var reasons []string
		okWhy := ""
		for _, la := range accesses {
			lk := la.lookup
			if lk == nil || !sameExpr(info, lk.key, a.key) || !sameExpr(info, la.sel, a.sel) {
				continue
			}
			lwhere := c.Position(lk.stmt.Pos())
			lst, lloc, ok := stateAt(lk.stmt)
			if !ok {
				continue
			}
			fromL := reach(lloc)
			if !fromL[pos{sloc.b, sloc.i}] {
				reasons = append(reasons, "the lookup at "+lwhere+" does not precede the store")
				continue
			}
			if lst&sN != 0 {
				reasons = append(reasons, "the lookup at "+lwhere+" is made without the lock")
				continue
			}
			// the if statement that tests the lookup's outcome
			var absent *cfg.Block
			why := "the outcome of the lookup at " + lwhere + " is not tested by an if statement of the form ok / !ok / x == nil / x != nil"
			for _, b := range g.Blocks {
				if !b.Live || len(b.Succs) != 2 || len(b.Nodes) == 0 {
					continue
				}
				cond, ok := b.Nodes[len(b.Nodes)-1].(ast.Expr)
				if !ok || !fromL[pos{b, len(b.Nodes) - 1}] {
					continue
				}
				present, recognised := iCTAPolarity(info, cond, lk)
				if !recognised {
					continue
				}
				t := b.Succs[1] // absent when the condition means "present"
				if !present {
					t = b.Succs[0]
				}
				// the tested variables are not assigned between the lookup and the test
				fromOther := false
				for _, bb := range g.Blocks {
					for i, n := range bb.Nodes {
						if n == lk.stmt || !fromL[pos{bb, i}] {
							continue
						}
						as := assignedObjs(n)
						if (lk.ok != nil && as[lk.ok]) || (lk.val != nil && as[lk.val] && lk.ok == nil) {
							if reach(nodeLoc{bb, i})[pos{b, len(b.Nodes) - 1}] {
								fromOther = true
							}
						}
					}
				}
				if fromOther {
					why = "the variable tested at " + c.Position(cond.Pos()) + " is assigned again between the lookup at " + lwhere + " and the test"
					continue
				}
				if len(preds[t]) != 1 || !dom[sloc.b][t] {
					why = "the store is not control dependent on the absent outcome of the lookup at " + lwhere + " (tested at " + c.Position(cond.Pos()) + ")"
					continue
				}
				absent = t
				break
			}
			if absent == nil {
				reasons = append(reasons, why)
				continue
			}
			// the key is not assigned between lookup and store
			keyChanged := ""
			released := ""
			for _, bb := range g.Blocks {
				for i, n := range bb.Nodes {
					if !fromL[pos{bb, i}] || n == ast.Node(a.store) {
						continue
					}
					toStore := reach(nodeLoc{bb, i})[pos{sloc.b, sloc.i}]
					if !toStore {
						continue
					}
					as := assignedObjs(n)
					for _, ko := range keyObjs(a.key) {
						if as[ko] {
							keyChanged = c.Position(n.Pos())
						}
					}
					for _, ev := range lockEvents(n) {
						if !ev.deferred && (ev.op == "Unlock" || ev.op == "RUnlock") {
							released = fmt.Sprintf("%s at %s", nodeText(c.Fset, ev.call), c.Position(ev.call.Pos()))
						}
					}
				}
			}
			switch {
			case keyChanged != "":
				reasons = append(reasons, "the key is assigned at "+keyChanged+" between the lookup at "+lwhere+" and the store")
			case released != "":
				reasons = append(reasons, "the lookup at "+lwhere+" and the store are in different critical sections: "+released+" lies between them, so another client can register the same key in the gap and one of the two values is lost")
			default:
				okWhy = "the absent outcome of the lookup " + nodeText(c.Fset, lk.stmt) + " at " + lwhere + ", made in the same critical section"
			}
			if okWhy != "" {
				break
			}
		}
		switch {
		case okWhy != "":
			ob.Status, ob.Detail = OK, what+" and is control dependent on "+okWhy
		case len(reasons) == 0:
			ob.Status, ob.Detail = Violation, what+" without any lookup of the same map and key in the function: an existing entry is overwritten"
		default:
			ob.Status, ob.Detail = Violation, what+" but is not a safe create-if-absent: "+reasons[0]
			ob.Path = reasons
		}
		out = append(out, ob)
	}
	return out
}

// iCTAPolarity decides whether a branch condition tests the outcome of the lookup, and whether
// its true edge means "present".
func iCTAPolarity(info *types.Info, cond ast.Expr, lk *iCTALookup) (present bool, ok bool) {
	cond = ast.Unparen(cond)
	isObj := func(e ast.Expr, o types.Object) bool {
		id, isId := ast.Unparen(e).(*ast.Ident)
		return isId && o != nil && info.ObjectOf(id) == o
	}
	isNil := func(e ast.Expr) bool {
		id, isId := ast.Unparen(e).(*ast.Ident)
		return isId && info.ObjectOf(id) == types.Universe.Lookup("nil")
	}
	switch x := cond.(type) {
	case *ast.Ident:
		if isObj(x, lk.ok) {
			return true, true
		}
	case *ast.UnaryExpr:
		if x.Op == token.NOT && isObj(x.X, lk.ok) {
			return false, true
		}
	case *ast.BinaryExpr:
		if x.Op == token.EQL || x.Op == token.NEQ {
			if (isObj(x.X, lk.val) && isNil(x.Y)) || (isObj(x.Y, lk.val) && isNil(x.X)) {
				return x.Op == token.NEQ, true
			}
		}
	}
	return false, false
}

func iUniqueStrings(in []string) []string {
	seen := map[string]bool{}
	var out []string
	for _, s := range in {
		if !seen[s] {
			seen[s] = true
			out = append(out, s)
		}
	}
	return out
}
