package main

import (
	"fmt"
	"go/ast"
	"go/token"
	"go/types"
)

// NIL-SIBLINGS (C23): when one method of a struct type treats a nil interface/pointer field as
// a legal state (`if recv.F == nil { … }`), the zero value of the type is part of its domain —
// values of the type are built as `T{}` by callers (b6.Collection[K, V]{} is returned by the
// client-callable functions for "nothing found"). Every sibling method that calls through the
// same field must then also be behind a nil test of it (or reach the field only through a
// guarded sibling), otherwise the zero value crashes with a nil dereference as soon as that
// sibling is called (BeginUntyped/Count are called on every result the server serialises).
//
// Slots (by shape, root package b6): struct types with a field F of interface or pointer type
// such that (a) some method declared on the type contains a comparison `recv.F == nil` or
// `recv.F != nil`, and (b) some function of the module returns the empty composite literal of
// the type together with a literal nil error, i.e. hands the zero value out as a success value
// (today: b6.Collection; b6.Expression tolerates nil in Equal but is only returned empty next
// to a non-nil error, so it is outside the slot). One obligation per method of the type that mentions recv.F in a selector
// or call (recv.F.M(…), or passing recv.F on): the first such use must be preceded, in the
// method body, by a nil comparison of recv.F (position order inside one body; the guard idioms
// of this code base are `if recv.F == nil { return … }` at the top of the method).
// Methods that never touch recv.F directly (they delegate to guarded siblings) have no
// obligation. Reading the field only to compare it with nil is the guard itself.
func init() {
	register(&Rule{
		Name:  "NIL-SIBLINGS",
		IR:    "ast",
		Props: []string{"C23"},
		Floor: 2, // b6.Collection: Begin, BeginUntyped/BeginValues (delegating: no obligation), Count; plus other types found by shape
		Doc: "in package b6, if one method of a struct type tests an interface/pointer field against nil (the zero value is a legal state), every sibling method that calls through that field " +
			"is also behind a nil test of it or reaches it only through a guarded sibling; otherwise the zero value (returned by client-callable functions for 'nothing found') crashes the server",
		Run: runNilSiblings,
	})
}

func runNilSiblings(c *Ctx) []Obligation {
	var out []Obligation
	p := c.Pkg("")
	if p == nil {
		return out
	}
	info := p.TypesInfo
	type methodInfo struct {
		fd    *ast.FuncDecl
		recv  types.Object
		named *types.Named
	}
	byType := map[*types.TypeName][]methodInfo{}
	for _, fd := range c.FuncDecls(p) {
		if fd.Recv == nil || len(fd.Recv.List) == 0 || len(fd.Recv.List[0].Names) == 0 {
			continue
		}
		recv := info.Defs[fd.Recv.List[0].Names[0]]
		if recv == nil {
			continue
		}
		n := namedOf(recv.Type())
		if n == nil {
			continue
		}
		if _, ok := n.Underlying().(*types.Struct); !ok {
			continue
		}
		byType[n.Origin().Obj()] = append(byType[n.Origin().Obj()], methodInfo{fd, recv, n})
	}
	// recvField returns the field selected directly on the receiver, or nil
	recvField := func(m methodInfo, e ast.Expr) *types.Var {
		sel, ok := ast.Unparen(e).(*ast.SelectorExpr)
		if !ok {
			return nil
		}
		id, ok := ast.Unparen(sel.X).(*ast.Ident)
		if !ok || info.ObjectOf(id) != m.recv {
			return nil
		}
		s := info.Selections[sel]
		if s == nil || s.Kind() != types.FieldVal || len(s.Index()) != 1 {
			return nil
		}
		v, _ := s.Obj().(*types.Var)
		if v == nil {
			return nil
		}
		switch v.Type().Underlying().(type) {
		case *types.Interface, *types.Pointer:
			return v.Origin()
		}
		return nil
	}
	isNil := func(e ast.Expr) bool {
		id, ok := ast.Unparen(e).(*ast.Ident)
		return ok && id.Name == "nil"
	}
	// The zero value is in the domain only if some function hands it out as a success value:
	// a return of an empty composite literal of the type together with a literal nil error.
	zeroReturned := map[*types.TypeName]token.Pos{}
	for _, q := range c.SortedPkgs() {
		for _, fd := range c.FuncDecls(q) {
			ast.Inspect(fd.Body, func(n ast.Node) bool {
				rs, ok := n.(*ast.ReturnStmt)
				if !ok || len(rs.Results) < 2 || !isNil(rs.Results[len(rs.Results)-1]) {
					return true
				}
				for _, r := range rs.Results[:len(rs.Results)-1] {
					cl, ok := ast.Unparen(r).(*ast.CompositeLit)
					if !ok || len(cl.Elts) != 0 {
						continue
					}
					if nt := namedOf(q.TypesInfo.TypeOf(cl)); nt != nil {
						if _, seen := zeroReturned[nt.Origin().Obj()]; !seen {
							zeroReturned[nt.Origin().Obj()] = rs.Pos()
						}
					}
				}
				return true
			})
		}
	}
	var names []*types.TypeName
	for tn := range byType {
		if _, ok := zeroReturned[tn]; ok {
			names = append(names, tn)
		}
	}
	sortTypeNames(names)
	for _, tn := range names {
		ms := byType[tn]
		// guarded fields of this type: compared with nil in some method
		guarded := map[*types.Var]token.Pos{}
		for _, m := range ms {
			ast.Inspect(m.fd.Body, func(n ast.Node) bool {
				be, ok := n.(*ast.BinaryExpr)
				if !ok || (be.Op != token.EQL && be.Op != token.NEQ) {
					return true
				}
				if f := recvField(m, be.X); f != nil && isNil(be.Y) {
					if _, seen := guarded[f]; !seen {
						guarded[f] = be.Pos()
					}
				}
				if f := recvField(m, be.Y); f != nil && isNil(be.X) {
					if _, seen := guarded[f]; !seen {
						guarded[f] = be.Pos()
					}
				}
				return true
			})
		}
		if len(guarded) == 0 {
			continue
		}
		for _, m := range ms {
			name := c.FuncName(p, m.fd)
			for f, gpos := range guarded {
				var firstUse, firstGuard token.Pos
				var useNode ast.Node
				var cmpOperands = map[ast.Expr]bool{}
				ast.Inspect(m.fd.Body, func(n ast.Node) bool {
					if be, ok := n.(*ast.BinaryExpr); ok && (be.Op == token.EQL || be.Op == token.NEQ) {
						if (recvField(m, be.X) == f && isNil(be.Y)) || (recvField(m, be.Y) == f && isNil(be.X)) {
							cmpOperands[ast.Unparen(be.X)] = true
							cmpOperands[ast.Unparen(be.Y)] = true
							if !firstGuard.IsValid() {
								firstGuard = be.Pos()
							}
						}
					}
					return true
				})
				ast.Inspect(m.fd.Body, func(n ast.Node) bool {
					e, ok := n.(ast.Expr)
					if !ok || cmpOperands[e] {
						return true
					}
					// a use: recv.F.<something> or recv.F as call argument / operand
					if sel, ok := e.(*ast.SelectorExpr); ok {
						if recvField(m, sel.X) == f {
							if !firstUse.IsValid() || sel.Pos() < firstUse {
								firstUse, useNode = sel.Pos(), sel
							}
						}
					}
					return true
				})
				if !firstUse.IsValid() {
					continue
				}
				ob := Obligation{Key: fmt.Sprintf("%s#%s", name, f.Name()), Pos: c.Position(firstUse)}
				if firstGuard.IsValid() && firstGuard < firstUse {
					ob.Status = OK
					ob.Detail = fmt.Sprintf("%s is tested against nil at %s before it is used", f.Name(), c.Position(firstGuard))
				} else {
					ob.Status = Violation
					ob.Detail = fmt.Sprintf("%s calls through field %s (%s) without a nil test, while a sibling method treats a nil %s as a legal state (%s): the zero value of %s crashes here",
						name, f.Name(), nodeText(c.Fset, useNode), f.Name(), c.Position(gpos), tn.Name())
				}
				out = append(out, ob)
			}
		}
	}
	return out
}

func sortTypeNames(ns []*types.TypeName) {
	for i := 1; i < len(ns); i++ {
		for j := i; j > 0 && ns[j].Name() < ns[j-1].Name(); j-- {
			ns[j], ns[j-1] = ns[j-1], ns[j]
		}
	}
}
