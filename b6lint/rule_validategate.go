package main

import (
	"fmt"
	"go/ast"
	"go/token"
	"go/types"
	"sort"
	"strings"

	"golang.org/x/tools/go/packages"
	"golang.org/x/tools/go/ssa"
)

// VALIDATE-GATE (C37): every feature that enters a world's feature map has been validated.
//
// (1) Who may write. Writers of a world's feature map are found by type in every module
// package: calls of (*ingest.FeaturesByID).AddFeature and index stores into a map whose type
// is (identical to) ingest.FeaturesByID. Each writer must sit in a function of the enumerated
// set below AND still have the shape that justifies it:
//
//	primitive  ingest.(*FeaturesByID).AddFeature — the store of its own parameter
//	validated  ingest.(*ModifiedFeatures).Update — insert of the validated feature; its callers carry obligation (2)
//	copy       ingest.NewModifiedFeaturesWithCopies, ingest.(*MutableOverlayWorld).AddTag/RemoveTag —
//	           the stored value is a local whose last assignment in the same block is a call of an
//	           ingest constructor from a feature already in a world (one parameter of a b6 feature
//	           interface type, result implements ingest.Feature: NewFeatureFromWorld and siblings)
//	restore    ingest.(*BasicMutableWorld).AddFeature, ingest.(*MutableOverlayWorld).AddFeature — index
//	           stores M[k] = x that belong to a save/replace/restore triple (old := M[k] earlier; the store
//	           writes old back, or a later store does): rule RESTORE proves the pairing on every path
//	builder    ingest.(*BasicWorldBuilder).AddFeature — input of a builder whose Finish carries obligation (3)
//
// A writer anywhere else is a violation (a new writer needs a reason and a review).
//
// (2) Gate. Every call of (*ingest.ModifiedFeatures).Update lies in the AddFeature method of a
// type implementing ingest.MutableWorld, and in that method's SSA form the call is reachable
// from the entry only through the `err == nil` edge of a test of the result of
// ingest.ValidateFeature(f, …) with f the method's feature parameter (the block of the call is
// unreachable once those edges are removed); the ModifiedFeatures it is called on was built
// from that same f.
//
// (3) Publication. In Finish of the builder: the value that hands the builder's feature map to
// a b6.World (composite literal with a field initialised from the builder's map) comes after
// the validate stage (a `go` of the closure that calls ValidateFeature on the builder's map and
// records failures, then WaitGroup.Wait) and after the deletion of the recorded broken features
// (delete(*map, …) in a range over the recorded failures, guarded by nothing but tests of that
// record); every return before that point returns a nil world.
func init() {
	register(&Rule{
		Name:  "VALIDATE-GATE",
		IR:    "ssa",
		Props: []string{"C37"},
		// writers: FeaturesByID.AddFeature#w1, ModifiedFeatures.Update#w1, NewModifiedFeaturesWithCopies#w1,
		// MutableOverlayWorld.AddTag#w1, RemoveTag#w1, BasicMutableWorld.AddFeature#w1,#w2, MutableOverlayWorld.AddFeature#w1,#w2,
		// BasicWorldBuilder.AddFeature#w1 (10; 12 once fix 0b184d3 added a restoring store to both AddFeature methods);
		// gates: BasicMutableWorld.AddFeature#gate1, MutableOverlayWorld.AddFeature#gate1 (2);
		// publication: BasicWorldBuilder.Finish#publish (1)
		Floor: 13,
		Doc: "the writers of a world's feature map are an enumerated set with one reason each (validated insert through ModifiedFeatures.Update, " +
			"copy of a feature already in a world, temporary store paired with its restore, builder input validated before publication); " +
			"Update is reached only on the err == nil edge of ValidateFeature of the same feature; Finish publishes only after the validate stage and the deletion of broken features",
		Run: runValidateGate,
	})
}

var fWriterReasons = map[string]string{
	"ingest.(*FeaturesByID).AddFeature":        "primitive",
	"ingest.(*ModifiedFeatures).Update":        "validated",
	"ingest.NewModifiedFeaturesWithCopies":     "copy",
	"ingest.(*MutableOverlayWorld).AddTag":     "copy",
	"ingest.(*MutableOverlayWorld).RemoveTag":  "copy",
	"ingest.(*BasicMutableWorld).AddFeature":   "restore",
	"ingest.(*MutableOverlayWorld).AddFeature": "restore",
	"ingest.(*BasicWorldBuilder).AddFeature":   "builder",
}

type fVGSite struct {
	pos token.Pos
	ob  Obligation
}

type fVG struct {
	c          *Ctx
	ing        *packages.Package
	byID       *types.Named     // ingest.FeaturesByID
	addFeature *types.Func      // (*FeaturesByID).AddFeature
	update     *types.Func      // (*ModifiedFeatures).Update
	validate   *types.Func      // ingest.ValidateFeature
	featIface  *types.Interface // ingest.Feature
	b6Feature  *types.Interface // b6.Feature
	mutWorld   *types.Interface // ingest.MutableWorld
	b6World    *types.Interface // b6.World
}

func fLookupIface(p *packages.Package, name string) *types.Interface {
	if p == nil {
		return nil
	}
	tn, _ := p.Types.Scope().Lookup(name).(*types.TypeName)
	if tn == nil {
		return nil
	}
	i, _ := tn.Type().Underlying().(*types.Interface)
	return i
}

func fMethodOf(p *packages.Package, typ, name string) *types.Func {
	tn, _ := p.Types.Scope().Lookup(typ).(*types.TypeName)
	if tn == nil {
		return nil
	}
	n, _ := tn.Type().(*types.Named)
	if n == nil {
		return nil
	}
	for i := 0; i < n.NumMethods(); i++ {
		if n.Method(i).Name() == name {
			return n.Method(i)
		}
	}
	return nil
}

func runValidateGate(c *Ctx) []Obligation {
	vg := &fVG{c: c, ing: c.Pkg("ingest")}
	root := c.Pkg("")
	if vg.ing == nil || root == nil {
		return nil
	}
	if tn, ok := vg.ing.Types.Scope().Lookup("FeaturesByID").(*types.TypeName); ok {
		vg.byID, _ = tn.Type().(*types.Named)
	}
	vg.addFeature = fMethodOf(vg.ing, "FeaturesByID", "AddFeature")
	vg.update = fMethodOf(vg.ing, "ModifiedFeatures", "Update")
	vg.validate, _ = vg.ing.Types.Scope().Lookup("ValidateFeature").(*types.Func)
	vg.featIface = fLookupIface(vg.ing, "Feature")
	vg.mutWorld = fLookupIface(vg.ing, "MutableWorld")
	vg.b6Feature = fLookupIface(root, "Feature")
	vg.b6World = fLookupIface(root, "World")
	if vg.byID == nil || vg.addFeature == nil || vg.update == nil || vg.validate == nil || vg.featIface == nil || vg.mutWorld == nil || vg.b6Feature == nil || vg.b6World == nil {
		return []Obligation{{Key: "ingest.anchors", Pos: "-", Status: Undecided,
			Detail: "an anchor of the rule is missing (ingest.FeaturesByID, its AddFeature, ModifiedFeatures.Update, ValidateFeature, ingest.Feature, ingest.MutableWorld, b6.Feature or b6.World)"}}
	}
	var out []Obligation
	builders := map[*types.Named]bool{} // types with a "builder" writer
	finishDone := map[*types.Named]bool{}
	type pending struct {
		p  *packages.Package
		fd *ast.FuncDecl
	}
	var finishes []pending
	for _, d := range fAllDecls(c) {
		// ordinals count per kind (writers #w1.., gates #gate1..), so that a repair that adds a
		// restoring store does not renumber the gate
		name := c.FuncName(d.p, d.fd)
		for kind, sites := range map[string][]fVGSite{"w": vg.writers(d.p, d.fd, builders), "gate": vg.gates(d.p, d.fd)} {
			sort.SliceStable(sites, func(i, j int) bool { return sites[i].pos < sites[j].pos })
			for i, s := range sites {
				s.ob.Key = fmt.Sprintf("%s#%s%d", name, kind, i+1)
				s.ob.Pos = c.Position(s.pos)
				out = append(out, s.ob)
			}
		}
		if d.fd.Name.Name == "Finish" {
			finishes = append(finishes, pending{d.p, d.fd})
		}
	}
	for _, f := range finishes {
		n := fRecvNamed(f.p.TypesInfo, f.fd)
		if n == nil || !builders[n] || finishDone[n] {
			continue
		}
		finishDone[n] = true
		ob := vg.publication(f.p, f.fd, n)
		ob.Key = c.FuncName(f.p, f.fd) + "#publish"
		out = append(out, ob)
	}
	var names []string
	for n := range builders {
		if !finishDone[n] {
			names = append(names, n.Obj().Name())
		}
	}
	sort.Strings(names)
	for _, nm := range names {
		out = append(out, Obligation{Key: "ingest." + nm + ".Finish#publish", Pos: "-", Status: Violation,
			Detail: "builder " + nm + " takes unvalidated input into its feature map but has no Finish method that validates before publication"})
	}
	return out
}

func (vg *fVG) isByIDMap(t types.Type) bool {
	if t == nil {
		return false
	}
	if p, ok := t.Underlying().(*types.Pointer); ok {
		t = p.Elem()
	}
	if _, ok := t.Underlying().(*types.Map); !ok {
		return false
	}
	return types.Identical(t.Underlying(), vg.byID.Underlying())
}

// writers finds the writers of a feature map in one declaration (function literals included).
func (vg *fVG) writers(p *packages.Package, fd *ast.FuncDecl, builders map[*types.Named]bool) []fVGSite {
	c := vg.c
	info := p.TypesInfo
	name := c.FuncName(p, fd)
	reason, listed := fWriterReasons[name]
	var sites []fVGSite
	add := func(pos token.Pos, what string, val ast.Expr, store *ast.AssignStmt, ix *ast.IndexExpr) {
		ob := Obligation{}
		if !listed {
			ob.Status = Violation
			ob.Detail = fmt.Sprintf("%s writes a world's feature map in %s, which is not one of the enumerated writers (%s): features can enter a world unvalidated", what, name, strings.Join(sortedKeys(fWriterReasons), ", "))
			sites = append(sites, fVGSite{pos, ob})
			return
		}
		ok, why := vg.shapeOK(p, fd, reason, val, store, ix, builders)
		if ok {
			ob.Status = OK
			ob.Detail = fmt.Sprintf("%s: enumerated writer, reason %q: %s", what, reason, why)
		} else {
			ob.Status = Violation
			ob.Detail = fmt.Sprintf("%s: enumerated writer with reason %q, but the code no longer has that shape: %s", what, reason, why)
		}
		sites = append(sites, fVGSite{pos, ob})
	}
	ast.Inspect(fd.Body, func(n ast.Node) bool {
		switch x := n.(type) {
		case *ast.CallExpr:
			if f := calleeFunc(info, x); f != nil && f.Origin() == vg.addFeature && len(x.Args) == 1 {
				add(x.Pos(), nodeText(c.Fset, x), x.Args[0], nil, nil)
			}
		case *ast.AssignStmt:
			if x.Tok != token.ASSIGN && x.Tok != token.DEFINE {
				return true
			}
			for i, l := range x.Lhs {
				ix, ok := ast.Unparen(l).(*ast.IndexExpr)
				if !ok || !vg.isByIDMap(info.TypeOf(ix.X)) {
					continue
				}
				var val ast.Expr
				if len(x.Lhs) == len(x.Rhs) {
					val = x.Rhs[i]
				}
				add(l.Pos(), nodeText(c.Fset, x), val, x, ix)
			}
		}
		return true
	})
	return sites
}

// lastAssignBefore returns the right-hand side of the last assignment to obj that precedes
// `before` in the innermost block containing it (straight-line), or nil.
func fLastAssignBefore(info *types.Info, body *ast.BlockStmt, before ast.Node, obj types.Object) ast.Expr {
	chain := enclosing(body, before)
	for i := len(chain) - 1; i >= 0; i-- {
		var list []ast.Stmt
		switch b := chain[i].(type) {
		case *ast.BlockStmt:
			list = b.List
		case *ast.CaseClause:
			list = b.Body
		default:
			continue
		}
		var rhs ast.Expr
		for _, s := range list {
			if s.End() > before.Pos() {
				break
			}
			switch a := s.(type) {
			case *ast.AssignStmt:
				for j, l := range a.Lhs {
					if id := fIdentOf(l); id != nil && info.ObjectOf(id) == obj {
						if len(a.Lhs) == len(a.Rhs) {
							rhs = a.Rhs[j]
						} else {
							rhs = a.Rhs[0]
						}
					}
				}
			case *ast.DeclStmt:
				if gd, ok := a.Decl.(*ast.GenDecl); ok {
					for _, sp := range gd.Specs {
						if vs, ok := sp.(*ast.ValueSpec); ok {
							for j, nm := range vs.Names {
								if info.ObjectOf(nm) == obj && j < len(vs.Values) {
									rhs = vs.Values[j]
								}
							}
						}
					}
				}
			default:
				// a nested statement that assigns the variable hides the straight-line definition
				if fAssignedIn(info, s)[obj] {
					rhs = nil
				}
			}
		}
		return rhs // innermost block only
	}
	return nil
}

// isWorldCopy: a call of an ingest constructor from a feature that is already in a world.
func (vg *fVG) isWorldCopy(info *types.Info, e ast.Expr) (string, bool) {
	call, ok := ast.Unparen(e).(*ast.CallExpr)
	if !ok {
		return "", false
	}
	f := calleeFunc(info, call)
	if f == nil || f.Pkg() == nil || f.Pkg() != vg.ing.Types {
		return "", false
	}
	sig := f.Type().(*types.Signature)
	if sig.Recv() != nil || sig.Params().Len() != 1 || sig.Results().Len() != 1 {
		return "", false
	}
	pt := sig.Params().At(0).Type()
	pi, ok := pt.Underlying().(*types.Interface)
	if !ok || pi.NumMethods() == 0 || !types.Implements(pt, vg.b6Feature) {
		return "", false
	}
	if n := namedOf(pt); n == nil || n.Obj().Pkg() == nil || n.Obj().Pkg().Path() != ModulePath {
		return "", false
	}
	if !types.Implements(sig.Results().At(0).Type(), vg.featIface) {
		return "", false
	}
	return f.Name(), true
}

func (vg *fVG) shapeOK(p *packages.Package, fd *ast.FuncDecl, reason string, val ast.Expr, store *ast.AssignStmt, ix *ast.IndexExpr, builders map[*types.Named]bool) (bool, string) {
	info := p.TypesInfo
	c := vg.c
	switch reason {
	case "primitive":
		if store == nil {
			return false, "the primitive is expected to store into the map directly"
		}
		id := fIdentOf(val)
		if id == nil {
			return false, "the stored value is not the method's parameter"
		}
		for _, fld := range fd.Type.Params.List {
			for _, nm := range fld.Names {
				if info.ObjectOf(nm) == info.ObjectOf(id) {
					return true, "stores its own parameter; every caller is a writer with its own reason"
				}
			}
		}
		return false, "the stored value is not the method's parameter"
	case "validated":
		if store != nil {
			return false, "a direct store instead of the AddFeature call"
		}
		return true, "insert of the feature the AddFeature entry points validated (their gates are separate obligations)"
	case "copy":
		if val == nil {
			return false, "no stored value"
		}
		if nm, ok := vg.isWorldCopy(info, val); ok {
			return true, "stores " + nm + "(…), a copy of a feature already in a world"
		}
		id := fIdentOf(val)
		if id == nil {
			return false, "the stored value " + types.ExprString(val) + " is not a local built from a feature already in a world"
		}
		var at ast.Node = val
		rhs := fLastAssignBefore(info, fd.Body, at, info.ObjectOf(id))
		if rhs == nil {
			return false, "no straight-line assignment of " + id.Name + " precedes the store in its block"
		}
		if nm, ok := vg.isWorldCopy(info, rhs); ok {
			return true, fmt.Sprintf("%s was last assigned %s at %s, a copy of a feature already in a world", id.Name, nm+"(…)", c.Position(rhs.Pos()))
		}
		return false, fmt.Sprintf("%s was last assigned %s, which is not a copy of a feature already in a world", id.Name, types.ExprString(rhs))
	case "restore":
		if store == nil || ix == nil {
			return false, "an AddFeature call instead of the temporary index store"
		}
		// old := M[k] before the store
		var saved types.Object
		var savePos token.Pos
		inspectShallow(fd.Body, func(n ast.Node) bool {
			as, ok := n.(*ast.AssignStmt)
			// `old := M[k]` or the comma-ok form `old, present := M[k]`
			if !ok || len(as.Lhs) < 1 || len(as.Lhs) > 2 || len(as.Rhs) != 1 || as.Pos() >= store.Pos() {
				return true
			}
			rix, ok := ast.Unparen(as.Rhs[0]).(*ast.IndexExpr)
			if !ok || !sameExpr(info, rix.X, ix.X) || !sameExpr(info, rix.Index, ix.Index) {
				return true
			}
			if id := fIdentOf(as.Lhs[0]); id != nil && id.Name != "_" {
				saved, savePos = info.ObjectOf(id), as.Pos()
			}
			return true
		})
		if saved == nil {
			return false, "no earlier save `old := M[k]` of the same entry"
		}
		isRestore := func(as *ast.AssignStmt) bool {
			if len(as.Lhs) != 1 || len(as.Rhs) != 1 {
				return false
			}
			lix, ok := ast.Unparen(as.Lhs[0]).(*ast.IndexExpr)
			if !ok || !sameExpr(info, lix.X, ix.X) || !sameExpr(info, lix.Index, ix.Index) {
				return false
			}
			id := fIdentOf(as.Rhs[0])
			return id != nil && info.ObjectOf(id) == saved
		}
		if isRestore(store) {
			return true, "writes back the entry saved at " + c.Position(savePos)
		}
		later := false
		inspectShallow(fd.Body, func(n ast.Node) bool {
			if as, ok := n.(*ast.AssignStmt); ok && as.Pos() > store.Pos() && isRestore(as) {
				later = true
			}
			return true
		})
		if later {
			return true, "temporary replacement of the entry saved at " + c.Position(savePos) + ", written back later (pairing on every path: rule RESTORE)"
		}
		return false, "the entry saved at " + c.Position(savePos) + " is never written back after this store"
	case "builder":
		n := fRecvNamed(info, fd)
		if n == nil {
			return false, "not a method of a builder"
		}
		// the target map is a field of the receiver
		builders[n] = true
		return true, "input of builder " + n.Obj().Name() + ", validated by its Finish before publication (separate obligation)"
	}
	return false, "unknown reason"
}

// gates: calls of ModifiedFeatures.Update and their dominance by validation.
func (vg *fVG) gates(p *packages.Package, fd *ast.FuncDecl) []fVGSite {
	c := vg.c
	info := p.TypesInfo
	var calls []*ast.CallExpr
	ast.Inspect(fd.Body, func(n ast.Node) bool {
		if call, ok := n.(*ast.CallExpr); ok {
			if f := calleeFunc(info, call); f != nil && f.Origin() == vg.update {
				calls = append(calls, call)
			}
		}
		return true
	})
	if len(calls) == 0 {
		return nil
	}
	var sites []fVGSite
	fobj, _ := info.Defs[fd.Name].(*types.Func)
	recv := fRecvNamed(info, fd)
	entry := fobj != nil && recv != nil && fd.Name.Name == "AddFeature" &&
		(types.Implements(recv, vg.mutWorld) || types.Implements(types.NewPointer(recv), vg.mutWorld))
	var sfn *ssa.Function
	if entry {
		sfn = c.SSAFunc(fobj)
	}
	for _, call := range calls {
		ob := Obligation{}
		what := nodeText(c.Fset, call)
		switch {
		case !entry:
			ob.Status = Violation
			ob.Detail = what + " is called outside the AddFeature method of an ingest.MutableWorld implementation: the insert is not behind a validated entry point"
		case sfn == nil || len(sfn.Blocks) == 0:
			ob.Status = Undecided
			ob.Detail = what + ": no SSA body for the entry point"
		default:
			ob = vg.gateSSA(sfn, call, what)
		}
		sites = append(sites, fVGSite{call.Pos(), ob})
	}
	return sites
}

func (vg *fVG) gateSSA(fn *ssa.Function, call *ast.CallExpr, what string) Obligation {
	c := vg.c
	ob := Obligation{}
	// the SSA call instruction of this syntax node
	var target ssa.CallInstruction
	for _, b := range fn.Blocks {
		for _, ins := range b.Instrs {
			if ci, ok := ins.(ssa.CallInstruction); ok && ci.Pos() == call.Lparen {
				if sc := ci.Common().StaticCallee(); sc != nil && sc.Object() == types.Object(vg.update) {
					target = ci
				}
			}
		}
	}
	if target == nil {
		ob.Status, ob.Detail = Undecided, what+": call not found in the SSA form (function literal or dead code?)"
		return ob
	}
	// gates: If on (ValidateFeature(param, …) != nil)
	type edge struct{ from, to *ssa.BasicBlock }
	okEdges := map[edge]bool{}
	var validated []ssa.Value
	var gateDesc []string
	for _, b := range fn.Blocks {
		if len(b.Instrs) == 0 {
			continue
		}
		iff, ok := b.Instrs[len(b.Instrs)-1].(*ssa.If)
		if !ok {
			continue
		}
		bin, ok := iff.Cond.(*ssa.BinOp)
		if !ok || (bin.Op != token.NEQ && bin.Op != token.EQL) {
			continue
		}
		var errv ssa.Value
		if k, ok := bin.Y.(*ssa.Const); ok && k.IsNil() {
			errv = bin.X
		} else if k, ok := bin.X.(*ssa.Const); ok && k.IsNil() {
			errv = bin.Y
		}
		vc, ok := errv.(*ssa.Call)
		if !ok {
			continue
		}
		if sc := vc.Common().StaticCallee(); sc == nil || sc.Object() != types.Object(vg.validate) || len(vc.Common().Args) == 0 {
			continue
		}
		par, ok := vc.Common().Args[0].(*ssa.Parameter)
		if !ok {
			continue
		}
		okTo := b.Succs[1]
		if bin.Op == token.EQL {
			okTo = b.Succs[0]
		}
		okEdges[edge{b, okTo}] = true
		validated = append(validated, par)
		gateDesc = append(gateDesc, fmt.Sprintf("ValidateFeature(%s, …) at %s", par.Name(), c.Position(vc.Pos())))
	}
	// reachability of the call without ok edges
	tb := target.Block()
	parent := map[*ssa.BasicBlock]*ssa.BasicBlock{}
	seen := map[*ssa.BasicBlock]bool{fn.Blocks[0]: true}
	work := []*ssa.BasicBlock{fn.Blocks[0]}
	reached := tb == fn.Blocks[0]
	for len(work) > 0 && !reached {
		b := work[0]
		work = work[1:]
		for _, s := range b.Succs {
			if okEdges[edge{b, s}] || seen[s] {
				continue
			}
			seen[s] = true
			parent[s] = b
			if s == tb {
				reached = true
				break
			}
			work = append(work, s)
		}
	}
	if reached {
		ob.Status = Violation
		if len(gateDesc) == 0 {
			ob.Detail = what + " is reachable although the method never tests the result of ValidateFeature on its feature parameter"
		} else {
			ob.Detail = what + " is reachable without passing the err == nil edge of " + strings.Join(gateDesc, " / ") + ": an invalid feature can be inserted"
		}
		var rev []string
		for b := tb; b != nil; b = parent[b] {
			pos := token.NoPos
			for _, ins := range b.Instrs {
				if ins.Pos().IsValid() {
					pos = ins.Pos()
					break
				}
			}
			rev = append(rev, fmt.Sprintf("block %d (%s) %s", b.Index, b.Comment, c.Position(pos)))
		}
		for i := len(rev) - 1; i >= 0; i-- {
			ob.Path = append(ob.Path, rev[i])
		}
		return ob
	}
	// the ModifiedFeatures was built from the validated feature
	var recvVal ssa.Value
	if args := target.Common().Args; len(args) > 0 {
		recvVal = args[0]
	}
	built := false
	if rc, ok := recvVal.(*ssa.Call); ok {
		for _, a := range rc.Common().Args {
			for _, v := range validated {
				if a == v {
					built = true
				}
			}
		}
	}
	if !built {
		ob.Status = Violation
		ob.Detail = what + " is gated by " + strings.Join(gateDesc, " / ") + ", but its receiver was not built from the validated feature parameter"
		return ob
	}
	ob.Status = OK
	ob.Detail = what + " is reachable only through the err == nil edge of " + strings.Join(gateDesc, " / ") + ", on a ModifiedFeatures built from the same feature"
	return ob
}

// publication checks Finish of a builder type.
func (vg *fVG) publication(p *packages.Package, fd *ast.FuncDecl, builder *types.Named) Obligation {
	c := vg.c
	info := p.TypesInfo
	ob := Obligation{Pos: c.Position(fd.Pos())}
	fail := func(format string, a ...interface{}) Obligation {
		ob.Status = Violation
		ob.Detail = fmt.Sprintf(format, a...)
		return ob
	}
	var recvObj types.Object
	if fd.Recv != nil && len(fd.Recv.List) > 0 && len(fd.Recv.List[0].Names) > 0 {
		recvObj = info.Defs[fd.Recv.List[0].Names[0]]
	}
	if recvObj == nil {
		ob.Status, ob.Detail = Undecided, "Finish has no named receiver"
		return ob
	}
	// the builder's map: a selector recv.F whose type is (a pointer to) the feature map
	isBuilderMap := func(e ast.Expr) bool {
		e = ast.Unparen(e)
		if st, ok := e.(*ast.StarExpr); ok {
			e = ast.Unparen(st.X)
		}
		se, ok := e.(*ast.SelectorExpr)
		if !ok || !vg.isByIDMap(info.TypeOf(se)) {
			return false
		}
		id := fIdentOf(se.X)
		return id != nil && info.ObjectOf(id) == recvObj
	}
	// publication points
	var pubs []*ast.CompositeLit
	inspectShallow(fd.Body, func(n ast.Node) bool {
		cl, ok := n.(*ast.CompositeLit)
		if !ok {
			return true
		}
		t := info.TypeOf(cl)
		if t == nil || !(types.Implements(t, vg.b6World) || types.Implements(types.NewPointer(t), vg.b6World)) {
			return true
		}
		for _, el := range cl.Elts {
			v := el
			if kv, ok := el.(*ast.KeyValueExpr); ok {
				v = kv.Value
			}
			if isBuilderMap(v) {
				pubs = append(pubs, cl)
				break
			}
		}
		return true
	})
	if len(pubs) == 0 {
		ob.Status, ob.Detail = Undecided, "no composite literal of a b6.World type initialised from the builder's feature map was found in Finish"
		return ob
	}
	pub := pubs[0]
	ob.Pos = c.Position(pub.Pos())
	// validate closure
	var vlit *ast.FuncLit
	var broken types.Object
	var vcall *ast.CallExpr
	ast.Inspect(fd.Body, func(n ast.Node) bool {
		fl, ok := n.(*ast.FuncLit)
		if !ok || vlit != nil {
			return true
		}
		ast.Inspect(fl.Body, func(m ast.Node) bool {
			ifs, ok := m.(*ast.IfStmt)
			if !ok || vlit != nil {
				return true
			}
			as, ok := ifs.Init.(*ast.AssignStmt)
			if !ok || len(as.Rhs) != 1 || len(as.Lhs) != 1 {
				return true
			}
			call, ok := ast.Unparen(as.Rhs[0]).(*ast.CallExpr)
			if !ok {
				return true
			}
			if f := calleeFunc(info, call); f == nil || f.Origin() != vg.validate {
				return true
			}
			onMap := false
			for _, a := range call.Args {
				if isBuilderMap(a) {
					onMap = true
				}
			}
			errID := fIdentOf(as.Lhs[0])
			be, isBin := ast.Unparen(ifs.Cond).(*ast.BinaryExpr)
			if !onMap || errID == nil || !isBin || be.Op != token.NEQ || fIdentOf(be.X) == nil || info.ObjectOf(fIdentOf(be.X)) != info.ObjectOf(errID) {
				return true
			}
			// the failure is recorded: X = append(X, …)
			ast.Inspect(ifs.Body, func(k ast.Node) bool {
				if a2, ok := k.(*ast.AssignStmt); ok && len(a2.Lhs) == 1 && len(a2.Rhs) == 1 {
					if ac, ok := ast.Unparen(a2.Rhs[0]).(*ast.CallExpr); ok && isBuiltin(info, ac, "append") && len(ac.Args) > 0 && sameExpr(info, ac.Args[0], a2.Lhs[0]) {
						if id := fIdentOf(a2.Lhs[0]); id != nil {
							broken = info.ObjectOf(id)
						}
					}
				}
				return true
			})
			if broken != nil {
				vlit, vcall = fl, call
			}
			return true
		})
		return true
	})
	if vlit == nil {
		return fail("Finish hands the builder's feature map to %s at %s, but no closure validates the features of that map with ValidateFeature and records the failures", types.ExprString(pub.Type), c.Position(pub.Pos()))
	}
	// the closure is started and joined
	var vobj types.Object
	inspectShallow(fd.Body, func(n ast.Node) bool {
		switch a := n.(type) {
		case *ast.AssignStmt:
			for i, r := range a.Rhs {
				if ast.Unparen(r) == ast.Expr(vlit) && i < len(a.Lhs) {
					if id := fIdentOf(a.Lhs[i]); id != nil {
						vobj = info.ObjectOf(id)
					}
				}
			}
		case *ast.ValueSpec:
			for i, r := range a.Values {
				if ast.Unparen(r) == ast.Expr(vlit) && i < len(a.Names) {
					vobj = info.ObjectOf(a.Names[i])
				}
			}
		}
		return true
	})
	var start *ast.GoStmt
	var wait *ast.CallExpr
	inspectShallow(fd.Body, func(n ast.Node) bool {
		switch x := n.(type) {
		case *ast.GoStmt:
			fun := ast.Unparen(x.Call.Fun)
			if fun == ast.Expr(vlit) || (fIdentOf(fun) != nil && vobj != nil && info.ObjectOf(fIdentOf(fun)) == vobj) {
				if start == nil {
					start = x
				}
			}
		case *ast.CallExpr:
			if f := calleeFunc(info, x); f != nil && f.Name() == "Wait" && f.Pkg() != nil && f.Pkg().Path() == "sync" {
				if start != nil && x.Pos() > start.Pos() && wait == nil {
					wait = x
				}
			}
		}
		return true
	})
	if start == nil {
		return fail("the validating closure at %s is never started in Finish", c.Position(vlit.Pos()))
	}
	if wait == nil {
		return fail("the validate stage started at %s is not joined (no WaitGroup.Wait after it)", c.Position(start.Pos()))
	}
	// deletion of the recorded failures
	var del *ast.CallExpr
	var delWhy string
	inspectShallow(fd.Body, func(n ast.Node) bool {
		call, ok := n.(*ast.CallExpr)
		if !ok || del != nil || !isBuiltin(info, call, "delete") || len(call.Args) != 2 || !isBuilderMap(call.Args[0]) {
			return true
		}
		if call.Pos() < wait.Pos() {
			return true
		}
		chain := enclosing(fd.Body, call)
		inRange := false
		for _, a := range chain {
			switch x := a.(type) {
			case *ast.RangeStmt:
				if id := fIdentOf(x.X); id != nil && info.ObjectOf(id) == broken {
					deps := fDependents(info, x.Body, info.ObjectOf(fIdentOf(x.Key)), func() types.Object {
						if x.Value != nil {
							if v := fIdentOf(x.Value); v != nil {
								return info.ObjectOf(v)
							}
						}
						return nil
					}())
					if fMentions(info, call.Args[1], deps) {
						inRange = true
					}
				}
			case *ast.IfStmt:
				if x.Body.Pos() <= call.Pos() && call.End() <= x.Body.End() {
					used := map[types.Object]bool{}
					fIdentObjs(info, x.Cond, used)
					for o := range used {
						if v, isVar := o.(*types.Var); isVar && o != broken {
							delWhy = fmt.Sprintf("the deletion at %s also depends on %s", c.Position(call.Pos()), v.Name())
						}
					}
				}
			}
		}
		if inRange && delWhy == "" {
			del = call
		} else if delWhy == "" {
			delWhy = fmt.Sprintf("the delete at %s is not inside a range over the recorded failures keyed by the failed feature", c.Position(call.Pos()))
		}
		return true
	})
	if del == nil {
		if delWhy == "" {
			delWhy = "no delete(…) on the builder's map in a range over the recorded failures follows the validate stage"
		}
		return fail("Finish publishes the builder's feature map at %s without first deleting the features that failed validation: %s", c.Position(pub.Pos()), delWhy)
	}
	if !(start.Pos() < wait.Pos() && wait.Pos() < del.Pos() && del.Pos() < pub.Pos()) {
		return fail("order in Finish is not validate (%s) → join (%s) → delete broken (%s) → publish (%s)", c.Position(start.Pos()), c.Position(wait.Pos()), c.Position(del.Pos()), c.Position(pub.Pos()))
	}
	// no world leaves before the publication point
	var early *ast.ReturnStmt
	inspectShallow(fd.Body, func(n ast.Node) bool {
		if r, ok := n.(*ast.ReturnStmt); ok && early == nil && r.Pos() < pub.Pos() && len(r.Results) > 0 {
			if id := fIdentOf(r.Results[0]); id == nil || id.Name != "nil" || info.ObjectOf(id) != types.Universe.Lookup("nil") {
				early = r
			}
		}
		return true
	})
	if early != nil {
		return fail("Finish returns a world at %s, before the validated publication point at %s", c.Position(early.Pos()), c.Position(pub.Pos()))
	}
	ob.Status = OK
	ob.Detail = fmt.Sprintf("the feature map is handed to %s only after the validate stage (go %s, joined at %s; %s) and the deletion of the recorded failures at %s; earlier returns give a nil world",
		types.ExprString(pub.Type), c.Position(start.Pos()), c.Position(wait.Pos()), nodeText(c.Fset, vcall), c.Position(del.Pos()))
	return ob
}
