package main

import (
	"fmt"
	"go/ast"
	"go/types"
	"strings"
)

// ORIENTED-CODEC (C19): s2 offers two constructors for a polygon from loops with two contracts.
// s2.PolygonFromLoops expects every loop to have its interior on its left (holes included: a hole
// is a counter-clockwise loop nested in its shell); s2.PolygonFromOrientedLoops expects holes in
// the opposite orientation to shells and inverts them itself. A codec for polygons whose writer
// emits a hole's vertices in reverse (the OGC/GeoJSON convention: the writer branches on
// (*s2.Loop).IsHole) therefore has to be read back with the oriented constructor, or has to undo
// the reversal for exactly the loops that are holes; read back with PolygonFromLoops, a polygon
// with a hole becomes (nearly) the whole sphere, and writing it again gives a different message.
//
// Discovery, by type only (whole module): a writer is a function or method with an operand of type
// *s2.Polygon (parameter or receiver) and a result of a module type T; its reader is a function or
// method in the same package with an operand of type T and the result *s2.Polygon. The writer is
// oriented if its body calls (*s2.Loop).IsHole. One obligation per pair whose writer is oriented:
//
//	the reader builds its result with s2.PolygonFromOrientedLoops, and has no call of
//	s2.PolygonFromLoops on loops taken from its operand.
//
// A reader that calls PolygonFromLoops after inverting loops it selects itself (by position) is
// reported: position does not say whether a loop is a hole (two holes in one shell are siblings).
// The expression/query codec of the root package carries C19; pairs elsewhere are informational.
func init() {
	register(&Rule{
		Name:  "ORIENTED-CODEC",
		IR:    "ast",
		Props: []string{"C19"},
		Floor: 1,
		Doc: "where the writer of a polygon codec emits hole loops reversed (it branches on (*s2.Loop).IsHole), the reader rebuilds the polygon with s2.PolygonFromOrientedLoops, " +
			"whose contract is loops of opposite orientation for shells and holes, not with s2.PolygonFromLoops (instances: writer/reader pairs found by their types; the root package is anchored)",
		Run: runOrientedCodec,
	})
}

func runOrientedCodec(c *Ctx) []Obligation {
	var out []Obligation
	isS2 := func(t types.Type, name string) bool {
		if p, ok := t.(*types.Pointer); ok {
			t = p.Elem()
		}
		n, ok := t.(*types.Named)
		return ok && n.Obj().Name() == name && n.Obj().Pkg() != nil && strings.HasSuffix(n.Obj().Pkg().Path(), "github.com/golang/geo/s2")
	}
	for _, p := range c.SortedPkgs() {
		info := p.TypesInfo
		type fn struct {
			decl *ast.FuncDecl
			obj  *types.Func
		}
		writers := map[string][]fn{} // type string of T -> writers
		readers := map[string][]fn{}
		for _, fd := range c.FuncDecls(p) {
			obj, _ := info.Defs[fd.Name].(*types.Func)
			if obj == nil || fd.Body == nil {
				continue
			}
			sig := obj.Type().(*types.Signature)
			if sig.Results().Len() != 1 {
				continue
			}
			var operands []types.Type
			if sig.Recv() != nil {
				operands = append(operands, sig.Recv().Type())
			}
			for i := 0; i < sig.Params().Len(); i++ {
				operands = append(operands, sig.Params().At(i).Type())
			}
			if len(operands) != 1 {
				continue
			}
			res := sig.Results().At(0).Type()
			inModule := func(t types.Type) bool {
				n := namedOf(t)
				return n != nil && n.Obj().Pkg() != nil && strings.HasPrefix(n.Obj().Pkg().Path(), ModulePath)
			}
			switch {
			case isS2(operands[0], "Polygon") && inModule(res):
				writers[types.TypeString(res, nil)] = append(writers[types.TypeString(res, nil)], fn{fd, obj})
			case isS2(res, "Polygon") && inModule(operands[0]):
				readers[types.TypeString(operands[0], nil)] = append(readers[types.TypeString(operands[0], nil)], fn{fd, obj})
			}
		}
		calls := func(fd *ast.FuncDecl, pred func(*types.Func) bool) []*ast.CallExpr {
			var found []*ast.CallExpr
			ast.Inspect(fd.Body, func(n ast.Node) bool {
				if call, ok := n.(*ast.CallExpr); ok {
					if f := calleeFunc(info, call); f != nil && pred(f) {
						found = append(found, call)
					}
				}
				return true
			})
			return found
		}
		s2Func := func(name string) func(*types.Func) bool {
			return func(f *types.Func) bool {
				return f.Name() == name && f.Pkg() != nil && strings.HasSuffix(f.Pkg().Path(), "github.com/golang/geo/s2")
			}
		}
		for _, t := range sortedKeys(writers) {
			for _, w := range writers[t] {
				writerOriented := len(calls(w.decl, s2Func("IsHole"))) > 0
				for _, r := range readers[t] {
					anchored := p == c.Pkg("")
					ob := Obligation{Key: c.FuncName(p, r.decl) + "~" + w.obj.Name(), Pos: c.Position(r.decl.Pos()), Status: OK}
					if !writerOriented {
						// loops written as s2 stores them (interior on the left, holes included) are
						// accepted by both constructors
						ob.Detail = fmt.Sprintf("%s writes every loop as s2 stores it (it does not ask IsHole): both s2 constructors accept that", w.obj.Name())
						if !anchored {
							ob.Status = Info
						}
						out = append(out, ob)
						continue
					}
					oriented := calls(r.decl, s2Func("PolygonFromOrientedLoops"))
					plain := calls(r.decl, s2Func("PolygonFromLoops"))
					inverts := calls(r.decl, s2Func("Invert"))
					switch {
					case len(plain) > 0 && len(inverts) > 0:
						ob.Status = Violation
						ob.Detail = fmt.Sprintf("%s writes hole loops reversed (it asks IsHole), and %s undoes the reversal for loops it selects itself before s2.PolygonFromLoops at %s: whether a loop is a hole is not a function of its position (two holes in one shell are siblings), so a loop left reversed makes the polygon nearly the whole sphere",
							w.obj.Name(), r.obj.Name(), c.Position(plain[0].Pos()))
					case len(plain) > 0:
						ob.Status = Violation
						ob.Detail = fmt.Sprintf("%s writes hole loops reversed (it asks IsHole), but %s rebuilds the polygon with s2.PolygonFromLoops at %s, which expects every loop to have its interior on the left: a polygon with a hole comes back as nearly the whole sphere and a second conversion changes the message",
							w.obj.Name(), r.obj.Name(), c.Position(plain[0].Pos()))
					case len(oriented) == 0:
						ob.Status = Undecided
						ob.Detail = fmt.Sprintf("%s writes hole loops reversed; %s calls neither s2 polygon constructor itself", w.obj.Name(), r.obj.Name())
					default:
						ob.Detail = fmt.Sprintf("%s writes hole loops reversed and %s rebuilds the polygon with s2.PolygonFromOrientedLoops", w.obj.Name(), r.obj.Name())
					}
					if !anchored {
						if ob.Status != OK {
							ob.Detail = "verdict " + string(ob.Status) + " (outside the anchored package): " + ob.Detail
						}
						ob.Status = Info
					}
					out = append(out, ob)
				}
			}
		}
	}
	return out
}
