package main

import (
	"fmt"
	"go/ast"
	"go/token"
	"go/types"
	"sort"
	"strings"
)

// POINTKIND (C17): a point record of a compact index comes in several kinds, told apart by the
// tag of the encoding.Tagged entry; each kind is decoded into its own record struct. Code of
// the compact world that dispatches on that tag and reads a field of the decoded record (the
// paths through a point, its relations, ...) has to handle every kind whose record struct
// carries that field. In particular an overlay index stores points of the base world as
// references-only records, so a reader without that arm silently drops them.
//
// Everything is derived from the code:
//   - scope: functions of ingest/compact that are methods of FeaturesByID or take a feature
//     block (the readers of a compact world);
//   - dispatch: a `switch x.Tag` (x an encoding.Tagged), or an if / else-if chain whose
//     conditions contain `x.Tag == K` / `x.Tag != K` as a conjunct, K a constant of the package;
//   - kind family of a dispatch: the run of constants, inside K's const declaration, that starts
//     at the nearest specification with an explicit type and ends before the next one;
//   - record type of a kind: the struct type T of a local `var p T` declared in an arm for that
//     kind in which `p.<method>(..., x.Data)` decodes the entry (union over all dispatches of the
//     scope; two different types for one kind, or a family kind with no record, are undecided);
//   - what a dispatch reads: field selections p.F on those record variables; a field stands for
//     the concept lower(F) without a plural s (Path/Paths -> path, Relations -> relation,
//     Tags -> tag), and a kind carries a concept if its record struct has such a field, promoted
//     fields included.
//
// Obligation (one per dispatch, ordinal in source order in the function): for every concept read
// in some arm, every kind of the family whose record carries the concept has an arm (an explicit
// case, the complement of a != test, a default / final else).
func init() {
	register(&Rule{
		Name:  "POINTKIND",
		IR:    "ast",
		Props: []string{"C17"},
		// FindLocationByID (!=), newPhysicalFeatureFromTagged (!=), findPathsByPoint, FindAreasByPoint,
		// isGraphNode, fillRelationsFromPoint
		Floor: 6,
		Doc: "in the compact world, every dispatch on the point-kind tag of a stored entry has an arm for each kind whose record struct " +
			"carries a field (paths, relations, tags) that the dispatch reads from the decoded record; kinds, record types and fields are derived from the declarations",
		Run: runPointkind,
	})
}

type hArm struct {
	kinds []*types.Const
	neg   bool // arm handles every kind of the family except kinds
	deflt bool // default / final else: handles everything not listed elsewhere
	body  []ast.Stmt
}

type hDispatch struct {
	unit   funcUnit
	pos    token.Pos
	tagged types.Object // the encoding.Tagged variable
	arms   []hArm
	form   string
}

// hTagSel: e is `x.Tag` with x a variable of type encoding.Tagged; returns x.
func hTagSel(info *types.Info, e ast.Expr) types.Object {
	sel, ok := ast.Unparen(e).(*ast.SelectorExpr)
	if !ok {
		return nil
	}
	id, ok := ast.Unparen(sel.X).(*ast.Ident)
	if !ok {
		return nil
	}
	s := info.Selections[sel]
	if s == nil || s.Kind() != types.FieldVal {
		return nil
	}
	if !isNamed(info.TypeOf(id), ModulePath+"/encoding", "Tagged") || !isNamed(s.Type(), ModulePath+"/encoding", "Tag") {
		return nil
	}
	return info.ObjectOf(id)
}

func hConstOf(info *types.Info, e ast.Expr, pkg *types.Package) *types.Const {
	id, ok := ast.Unparen(e).(*ast.Ident)
	if !ok {
		return nil
	}
	k, ok := info.ObjectOf(id).(*types.Const)
	if !ok || k.Pkg() != pkg {
		return nil
	}
	return k
}

// hTagTest finds a conjunct `x.Tag ==/!= K` in cond.
func hTagTest(info *types.Info, cond ast.Expr, pkg *types.Package) (types.Object, *types.Const, token.Token) {
	for _, f := range hFacts(cond, true) {
		be, ok := f.leaf.(*ast.BinaryExpr)
		if !ok || !f.val || (be.Op != token.EQL && be.Op != token.NEQ) {
			continue
		}
		for _, pair := range [][2]ast.Expr{{be.X, be.Y}, {be.Y, be.X}} {
			if x := hTagSel(info, pair[0]); x != nil {
				if k := hConstOf(info, pair[1], pkg); k != nil {
					return x, k, be.Op
				}
			}
		}
	}
	return nil, nil, 0
}

func hCollectDispatches(c *Ctx, h *hCompact) []hDispatch {
	var out []hDispatch
	p := h.pkg
	info := p.TypesInfo
	for _, u := range c.units(p, false) {
		// scope: method of FeaturesByID, or a function with a block parameter
		inScope := false
		if u.decl.Recv != nil && len(u.decl.Recv.List) == 1 {
			if n := namedOf(info.TypeOf(u.decl.Recv.List[0].Type)); n != nil && n.Obj() == h.byID.Obj() {
				inScope = true
			}
		}
		for _, fl := range u.decl.Type.Params.List {
			if h.isBlockPtr(info.TypeOf(fl.Type)) {
				inScope = true
			}
		}
		if !inScope {
			continue
		}
		chained := map[*ast.IfStmt]bool{} // else-if members already consumed by their head
		ast.Inspect(u.body, func(n ast.Node) bool {
			switch s := n.(type) {
			case *ast.SwitchStmt:
				if s.Tag == nil {
					return true
				}
				x := hTagSel(info, s.Tag)
				if x == nil {
					return true
				}
				d := hDispatch{unit: u, pos: s.Pos(), tagged: x, form: "switch"}
				for _, cs := range s.Body.List {
					cc := cs.(*ast.CaseClause)
					arm := hArm{body: cc.Body}
					if cc.List == nil {
						arm.deflt = true
					}
					for _, e := range cc.List {
						if k := hConstOf(info, e, p.Types); k != nil {
							arm.kinds = append(arm.kinds, k)
						}
					}
					d.arms = append(d.arms, arm)
				}
				out = append(out, d)
			case *ast.IfStmt:
				if chained[s] {
					return true
				}
				x, k, op := hTagTest(info, s.Cond, p.Types)
				if x == nil {
					return true
				}
				d := hDispatch{unit: u, pos: s.Pos(), tagged: x, form: "if"}
				d.arms = append(d.arms, hArm{kinds: []*types.Const{k}, neg: op == token.NEQ, body: s.Body.List})
				cur := s
				for cur.Else != nil {
					if next, ok := cur.Else.(*ast.IfStmt); ok {
						x2, k2, op2 := hTagTest(info, next.Cond, p.Types)
						if x2 != x {
							// an else-if on something else: treat the rest as a final else
							d.arms = append(d.arms, hArm{deflt: true, body: []ast.Stmt{next}})
							break
						}
						chained[next] = true
						d.arms = append(d.arms, hArm{kinds: []*types.Const{k2}, neg: op2 == token.NEQ, body: next.Body.List})
						cur = next
						continue
					}
					d.arms = append(d.arms, hArm{deflt: true, body: cur.Else.(*ast.BlockStmt).List})
					break
				}
				out = append(out, d)
			}
			return true
		})
	}
	sort.SliceStable(out, func(i, j int) bool { return out[i].pos < out[j].pos })
	return out
}

// hConstFamily: the run of constants around k in its declaration, delimited by explicitly typed specs.
func hConstFamily(c *Ctx, h *hCompact, k *types.Const) []*types.Const {
	info := h.pkg.TypesInfo
	for _, f := range h.pkg.Syntax {
		for _, d := range f.Decls {
			gd, ok := d.(*ast.GenDecl)
			if !ok || gd.Tok != token.CONST || k.Pos() < gd.Pos() || k.Pos() > gd.End() {
				continue
			}
			var runs [][]*types.Const
			for _, sp := range gd.Specs {
				vs := sp.(*ast.ValueSpec)
				if vs.Type != nil || len(runs) == 0 {
					runs = append(runs, nil)
				}
				for _, name := range vs.Names {
					if obj, ok := info.Defs[name].(*types.Const); ok {
						runs[len(runs)-1] = append(runs[len(runs)-1], obj)
					}
				}
			}
			for _, r := range runs {
				for _, m := range r {
					if m == k {
						return r
					}
				}
			}
		}
	}
	return nil
}

func hConcept(field string) string {
	s := strings.ToLower(field)
	if len(s) > 1 && strings.HasSuffix(s, "s") {
		s = s[:len(s)-1]
	}
	return s
}

// hRecordConcepts: concept -> field path, over all fields of a record struct incl. promoted ones.
func hRecordConcepts(t *types.Named) map[string]string {
	out := map[string]string{}
	var walk func(t types.Type, prefix string, depth int)
	walk = func(t types.Type, prefix string, depth int) {
		st, ok := t.Underlying().(*types.Struct)
		if !ok || depth > 4 {
			return
		}
		for i := 0; i < st.NumFields(); i++ {
			f := st.Field(i)
			if _, seen := out[hConcept(f.Name())]; !seen {
				out[hConcept(f.Name())] = prefix + f.Name()
			}
			if f.Embedded() {
				walk(f.Type(), prefix+f.Name()+".", depth+1)
			}
		}
	}
	walk(t, "", 0)
	return out
}

// hArmRecords: local variables of struct type declared in the arm on which a method is called
// with x.Data as an argument (the decoded record of the arm).
func hArmRecords(info *types.Info, pkg *types.Package, body []ast.Stmt, x types.Object) map[types.Object]*types.Named {
	recs := map[types.Object]*types.Named{}
	for _, st := range body {
		ast.Inspect(st, func(n ast.Node) bool {
			call, ok := n.(*ast.CallExpr)
			if !ok {
				return true
			}
			sel, ok := ast.Unparen(call.Fun).(*ast.SelectorExpr)
			if !ok {
				return true
			}
			id, ok := ast.Unparen(sel.X).(*ast.Ident)
			if !ok {
				return true
			}
			v, ok := info.ObjectOf(id).(*types.Var)
			if !ok || v.IsField() {
				return true
			}
			named := namedOf(v.Type())
			if named == nil || named.Obj().Pkg() != pkg {
				return true
			}
			if _, isStruct := named.Underlying().(*types.Struct); !isStruct {
				return true
			}
			if _, isPtr := types.Unalias(v.Type()).(*types.Pointer); isPtr {
				return true
			}
			usesData := false
			for _, a := range call.Args {
				if ds, ok := ast.Unparen(a).(*ast.SelectorExpr); ok {
					if di, ok := ast.Unparen(ds.X).(*ast.Ident); ok && info.ObjectOf(di) == x {
						if s := info.Selections[ds]; s != nil && s.Kind() == types.FieldVal {
							if _, isSlice := s.Type().Underlying().(*types.Slice); isSlice {
								usesData = true
							}
						}
					}
				}
			}
			// the variable must be declared inside this arm
			if usesData && v.Pos() >= body[0].Pos() && v.Pos() <= body[len(body)-1].End() {
				recs[v] = named
			}
			return true
		})
	}
	return recs
}

func runPointkind(c *Ctx) []Obligation {
	h, msg := hCompactAnchors(c)
	if h == nil {
		return []Obligation{{Key: "compact.FeaturesByID#anchor", Status: Undecided, Detail: msg}}
	}
	info := h.pkg.TypesInfo
	ds := hCollectDispatches(c, h)

	// kind -> record type, union over all dispatches
	recordOf := map[*types.Const]*types.Named{}
	conflict := map[*types.Const]string{}
	for _, d := range ds {
		for _, arm := range d.arms {
			if arm.neg || arm.deflt || len(arm.body) == 0 {
				continue
			}
			for _, t := range hArmRecords(info, h.pkg.Types, arm.body, d.tagged) {
				for _, k := range arm.kinds {
					if prev, ok := recordOf[k]; ok && prev.Obj() != t.Obj() {
						conflict[k] = fmt.Sprintf("%s and %s", prev.Obj().Name(), t.Obj().Name())
					}
					recordOf[k] = t
				}
			}
		}
	}

	var out []Obligation
	ord := map[string]int{}
	for _, d := range ds {
		ord[d.unit.name]++
		ob := Obligation{Key: fmt.Sprintf("%s#%d", d.unit.name, ord[d.unit.name]), Pos: c.Position(d.pos)}
		// family
		var first *types.Const
		for _, arm := range d.arms {
			if len(arm.kinds) > 0 {
				first = arm.kinds[0]
				break
			}
		}
		if first == nil {
			ob.Status, ob.Detail = Undecided, "dispatch on the entry tag without a constant kind"
			out = append(out, ob)
			continue
		}
		family := hConstFamily(c, h, first)
		inFamily := map[*types.Const]bool{}
		var famNames []string
		for _, k := range family {
			inFamily[k] = true
			famNames = append(famNames, k.Name())
		}
		// handled kinds and concepts read
		handled := map[*types.Const]bool{}
		hasDefault := false
		read := map[string]string{} // concept -> "p.F at pos"
		bad := ""
		for _, arm := range d.arms {
			for _, k := range arm.kinds {
				if !inFamily[k] {
					bad = fmt.Sprintf("kind %s is not in the family of %s (%s)", k.Name(), first.Name(), strings.Join(famNames, ", "))
				}
			}
			switch {
			case arm.deflt:
				hasDefault = true
			case arm.neg:
				for _, k := range family {
					if len(arm.kinds) == 1 && k != arm.kinds[0] {
						handled[k] = true
					}
				}
			default:
				for _, k := range arm.kinds {
					handled[k] = true
				}
			}
			if len(arm.body) == 0 {
				continue
			}
			recs := hArmRecords(info, h.pkg.Types, arm.body, d.tagged)
			for _, st := range arm.body {
				ast.Inspect(st, func(n ast.Node) bool {
					sel, ok := n.(*ast.SelectorExpr)
					if !ok {
						return true
					}
					// selector chain p.A.B from the record variable outwards
					var chain []*ast.SelectorExpr
					var root ast.Expr = sel
					for {
						if s2, ok := ast.Unparen(root).(*ast.SelectorExpr); ok {
							chain = append([]*ast.SelectorExpr{s2}, chain...)
							root = s2.X
							continue
						}
						break
					}
					id, ok := ast.Unparen(root).(*ast.Ident)
					if !ok {
						return true
					}
					if _, isRec := recs[info.ObjectOf(id)]; !isRec {
						return true
					}
					// the field read is the first one that is not an explicitly named embedded struct
					for i, step := range chain {
						s := info.Selections[step]
						if s == nil || s.Kind() != types.FieldVal {
							break
						}
						fv := s.Obj().(*types.Var)
						if _, isStruct := fv.Type().Underlying().(*types.Struct); fv.Embedded() && isStruct && i+1 < len(chain) {
							continue
						}
						cpt := hConcept(fv.Name())
						if _, seen := read[cpt]; !seen {
							read[cpt] = fmt.Sprintf("%s at %s", types.ExprString(step), c.Position(step.Pos()))
						}
						break
					}
					return true
				})
			}
		}
		if bad != "" {
			ob.Status, ob.Detail = Undecided, bad
			out = append(out, ob)
			continue
		}
		var missing []string
		undecided := ""
		if !hasDefault {
			for _, k := range family {
				if handled[k] {
					continue
				}
				if cf, ok := conflict[k]; ok {
					undecided = fmt.Sprintf("kind %s is decoded into two record types (%s)", k.Name(), cf)
					continue
				}
				rec := recordOf[k]
				if rec == nil {
					if len(read) > 0 {
						undecided = fmt.Sprintf("kind %s has no arm here and no record type can be derived for it from any dispatch", k.Name())
					}
					continue
				}
				carried := hRecordConcepts(rec)
				for _, cpt := range sortedKeys(read) {
					if path, ok := carried[cpt]; ok {
						missing = append(missing, fmt.Sprintf("kind %s (record %s carries %s) has no arm although the dispatch reads %s", k.Name(), rec.Obj().Name(), path, read[cpt]))
					}
				}
			}
		}
		switch {
		case len(missing) > 0:
			ob.Status = Violation
			ob.Detail = fmt.Sprintf("%s on %s.Tag over kinds {%s}: %s", d.form, d.tagged.Name(), strings.Join(famNames, ", "), strings.Join(missing, "; "))
		case undecided != "":
			ob.Status, ob.Detail = Undecided, undecided
		default:
			ob.Status = OK
			var rd []string
			for _, cpt := range sortedKeys(read) {
				rd = append(rd, cpt)
			}
			if len(rd) == 0 {
				ob.Detail = fmt.Sprintf("%s on %s.Tag over kinds {%s} reads no field of a decoded record", d.form, d.tagged.Name(), strings.Join(famNames, ", "))
			} else {
				ob.Detail = fmt.Sprintf("%s on %s.Tag over kinds {%s} reads {%s}; every kind whose record carries one of them has an arm", d.form, d.tagged.Name(), strings.Join(famNames, ", "), strings.Join(rd, ", "))
			}
		}
		out = append(out, ob)
	}
	return out
}
