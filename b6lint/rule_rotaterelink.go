package main

import (
	"fmt"
	"go/ast"
	"go/token"
	"go/types"
	"sort"

	"golang.org/x/tools/go/cfg"
	"golang.org/x/tools/go/packages"
)

// ROTATE-RELINK (C07): a rotation rewrites the links below a subtree root and returns the new
// root; the caller still has to hang that new root where the old one hung (under the
// grandparent, or as the tree's root). A rotation whose result is not linked back leaves the
// grandparent / root pointing at a node that was rotated downwards: part of the tree becomes
// unreachable and parent pointers form a cycle.
//
// Discovery (package search, node type N and tree type found by shape as in PARENT-PAIRING):
// a rotation function is a function or method with a result of type *N and at least one
// parameter of type *N whose body stores into a left/right field of N, or that returns the
// result of such a function (today rotateLeft, rotateRight, rotateRightLeft, rotateLeftRight).
// Every call of a rotation function outside rotation functions is one instance, numbered per
// caller in source order (today 4 in rebalanceAfterInsert, 4 in rebalanceBeforeDelete).
//
// Obligation (go/cfg, must-pass-through): from the call, every path reaches a link store of the
// result — `G.left = R`, `G.right = R` or `T.root = R` (T the tree, field root of type *N) —
// before it starts the next iteration of the innermost enclosing loop, leaves that loop, or
// leaves the function. Accepted idioms:
//
//	R = rotate(...) / R := rotate(...)   then a link store whose value is the variable R, with R
//	                                     not re-assigned in between (today's tree)
//	G.left = rotate(...)                 the call is itself the value of a link store
//	return rotate(...)                   inside a rotation function only (not an instance)
//
// A call whose value is discarded, passed on, or assigned to something other than a local
// variable is undecided. Not covered: which node the result is linked under (PARENT-PAIRING
// pairs the link store with the parent store), balance bookkeeping.
func init() {
	register(&Rule{
		Name:  "ROTATE-RELINK",
		IR:    "cfg",
		Props: []string{"C07"},
		Floor: 8, // 4 calls in rebalanceAfterInsert, 4 in rebalanceBeforeDelete
		Doc: "the result of every call of a rotation function of the AVL tree is, on every path from the call to the end of the loop iteration or " +
			"function exit, stored into a left/right field of another node or into the tree's root",
		Run: runRotateRelink,
	})
}

// gRotationFuncs finds the rotation functions of package p for tree shape sh.
func (c *Ctx) gRotationFuncs(p *packages.Package, sh *gTreeShape) map[*types.Func]bool {
	info := p.TypesInfo
	isNodePtr := func(t types.Type) bool {
		ptr, ok := t.(*types.Pointer)
		return ok && types.Identical(ptr.Elem(), sh.node)
	}
	candidate := map[*types.Func]*ast.FuncDecl{}
	for _, fd := range c.FuncDecls(p) {
		fn, _ := info.Defs[fd.Name].(*types.Func)
		if fn == nil {
			continue
		}
		sig := fn.Type().(*types.Signature)
		if sig.Results().Len() != 1 || !isNodePtr(sig.Results().At(0).Type()) {
			continue
		}
		hasParam := false
		for i := 0; i < sig.Params().Len(); i++ {
			if isNodePtr(sig.Params().At(i).Type()) {
				hasParam = true
			}
		}
		if hasParam {
			candidate[fn] = fd
		}
	}
	rot := map[*types.Func]bool{}
	for fn, fd := range candidate {
		stores := false
		inspectShallow(fd.Body, func(n ast.Node) bool {
			if as, ok := n.(*ast.AssignStmt); ok {
				for _, l := range as.Lhs {
					if se, ok := ast.Unparen(l).(*ast.SelectorExpr); ok {
						if sel := info.Selections[se]; sel != nil && (sel.Obj() == sh.left || sel.Obj() == sh.right) {
							stores = true
						}
					}
				}
			}
			return true
		})
		if stores {
			rot[fn] = true
		}
	}
	for changed := true; changed; {
		changed = false
		for fn, fd := range candidate {
			if rot[fn] {
				continue
			}
			inspectShallow(fd.Body, func(n ast.Node) bool {
				if rs, ok := n.(*ast.ReturnStmt); ok && len(rs.Results) == 1 {
					if call, ok := ast.Unparen(rs.Results[0]).(*ast.CallExpr); ok {
						if g := calleeFunc(info, call); g != nil && rot[g.Origin()] && !rot[fn] {
							rot[fn] = true
							changed = true
						}
					}
				}
				return true
			})
		}
	}
	return rot
}

func runRotateRelink(c *Ctx) []Obligation {
	p := c.Pkg("search")
	if p == nil {
		return nil
	}
	info := p.TypesInfo
	sh := gFindTreeShape(p.Types)
	if sh == nil {
		return nil
	}
	rot := c.gRotationFuncs(p, sh)
	if len(rot) == 0 {
		return nil
	}
	linkField := func(e ast.Expr) bool {
		se, ok := ast.Unparen(e).(*ast.SelectorExpr)
		if !ok {
			return false
		}
		sel := info.Selections[se]
		if sel == nil {
			return false
		}
		v, _ := sel.Obj().(*types.Var)
		return v != nil && (v == sh.left || v == sh.right || sh.roots[v])
	}
	var out []Obligation
	for _, fd := range c.FuncDecls(p) {
		fn, _ := info.Defs[fd.Name].(*types.Func)
		if fn == nil || rot[fn] {
			continue
		}
		name := c.FuncName(p, fd)
		var calls []*ast.CallExpr
		inspectShallow(fd.Body, func(n ast.Node) bool {
			if call, ok := n.(*ast.CallExpr); ok {
				if g := calleeFunc(info, call); g != nil && rot[g.Origin()] {
					calls = append(calls, call)
				}
			}
			return true
		})
		if len(calls) == 0 {
			continue
		}
		sort.Slice(calls, func(i, j int) bool { return calls[i].Pos() < calls[j].Pos() })
		g := newCFG(info, fd.Body)
		for i, call := range calls {
			ob := Obligation{Key: gNthKey(name, i+1), Pos: c.Position(call.Pos())}
			callText := types.ExprString(call)
			// the statement the call is the value of
			chain := enclosing(fd.Body, call)
			var as *ast.AssignStmt
			var loop ast.Stmt
			for _, n := range chain {
				switch s := n.(type) {
				case *ast.AssignStmt:
					as = s
				case *ast.ForStmt:
					loop = s
				case *ast.RangeStmt:
					loop = s
				}
			}
			var result types.Object
			direct := false
			if as != nil && len(as.Lhs) == len(as.Rhs) {
				for k, r := range as.Rhs {
					if ast.Unparen(r) == ast.Expr(call) {
						if linkField(as.Lhs[k]) {
							direct = true
						} else if id, ok := ast.Unparen(as.Lhs[k]).(*ast.Ident); ok && id.Name != "_" {
							result = info.ObjectOf(id)
						}
					}
				}
			}
			if direct {
				ob.Status, ob.Detail = OK, fmt.Sprintf("%s is itself the value of a link store", callText)
				out = append(out, ob)
				continue
			}
			if result == nil {
				ob.Status = Undecided
				ob.Detail = fmt.Sprintf("%s: the result of %s at %s is not assigned to a local variable or a link field; cannot follow it", name, callText, c.Position(call.Pos()))
				out = append(out, ob)
				continue
			}
			loc, ok := findNode(g, as)
			if !ok {
				ob.Status, ob.Detail = Undecided, "call not found in the control-flow graph"
				out = append(out, ob)
				continue
			}
			isLink := func(n ast.Node) bool {
				s, ok := n.(*ast.AssignStmt)
				if !ok || s.Tok != token.ASSIGN || len(s.Lhs) != len(s.Rhs) {
					return false
				}
				for k, l := range s.Lhs {
					if id, ok := ast.Unparen(s.Rhs[k]).(*ast.Ident); ok && info.ObjectOf(id) == result && linkField(l) {
						return true
					}
				}
				return false
			}
			var iter map[*cfg.Block]bool
			var done *cfg.Block
			if loop != nil {
				_, iter, done = gLoopBlocks(g, loop)
			}
			s := &gSearch{c: c, info: info, exitBad: true, stopNode: isLink,
				killNode: func(n ast.Node) string {
					if n != ast.Node(as) && gAssigns(info, n, result) {
						return result.Name() + " is re-assigned before the rotated subtree was linked back"
					}
					return ""
				},
				badBlock: func(b *cfg.Block) string {
					if iter[b] {
						return fmt.Sprintf("starts the next iteration of the loop at %s without linking %s back", c.Position(loop.Pos()), result.Name())
					}
					if done != nil && b == done {
						return fmt.Sprintf("leaves the loop at %s without linking %s back", c.Position(loop.Pos()), result.Name())
					}
					return ""
				}}
			if w := s.forward(loc.b, loc.i+1); w != nil {
				ob.Status = Violation
				ob.Detail = fmt.Sprintf("%s: the subtree root returned by %s at %s (%s) is not stored into a left/right field or the tree's root on every path; the old root stays linked above a node that was rotated below it", name, callText, c.Position(call.Pos()), result.Name())
				ob.Path = append([]string{"rotation at " + c.Position(call.Pos())}, w...)
			} else {
				ob.Status = OK
				ob.Detail = fmt.Sprintf("every path from %s = %s stores %s into a child field or the root before the iteration ends", result.Name(), callText, result.Name())
			}
			out = append(out, ob)
		}
	}
	return out
}
