package main

import (
	"fmt"
	"go/ast"
	"go/token"
	"go/types"
	"sort"
	"strings"

	"golang.org/x/tools/go/packages"
)

// REDUCER-SPANS (C20): a node the parser builds from several nodes spans from the beginning of
// its first operand to the end of its last operand.
//
// Slot (by shape): the *reducers* are the functions of package api that the generated parser
// (the generated file y.go) calls, that return a b6.Expression and take two or more node
// parameters (parameters of type b6.Expression or []b6.Expression). Today: reduceLatLng,
// reduceTag, reduceCallWithArgs, reducePipeline, reduceLambda, reduceCollectionItemsItemsKeyValue,
// reduceCollectionKeyValue, reduceTagKeyValue, reduceAnd, reduceOr.
//
// What a reducer returns is resolved symbolically: composite literals b6.Expression{... Begin: x,
// End: y}; local variables and re-assigned parameters (all assigned values); calls of module
// functions with a body (their own result, with the arguments substituted — Pipeline(left, right));
// `x` is `N.Begin` / `N.End` of a node parameter N, of N[0] / N[len(N)-1] for a slice parameter, of
// a node held in a non-node parameter (l.LHS, the lexer's pending left operand), or a local
// integer assigned from those. `b6.Expression{}` (no elements) is the empty node returned on
// errors and is ignored.
//
// Obligation for a reducer that sets spans: on every path the Begin comes from the first node
// parameter (its first element if it is a slice, with the next node parameter as the fallback for
// an empty slice) — a node held in the lexer state may come in addition, it precedes the
// input — and the End comes from the last node parameter (its last element if it is a slice, the
// previous node parameter as fallback). Begin taken from a later operand, End from an earlier one,
// a .Begin used as End (or the reverse), or only one of the two set, is a violation; the detail
// names the sibling reducers (same parameter types) that do it right. Anything the resolution does
// not know is `undecided`.
//
// Reducers that set no span at all (they build the node without Begin/End, or hand back one of
// their parameters) have poor spans, not wrong ones; they are listed as info.
func init() {
	register(&Rule{
		Name:  "REDUCER-SPANS",
		IR:    "ast",
		Props: []string{"C20"},
		Floor: 7, // reduceTag, reduceCallWithArgs, reducePipeline, reduceLambda, reduceTagKeyValue, reduceAnd, reduceOr
		Doc: "every parser reducer (function called from the generated parser, returning a b6.Expression built from two or more node parameters) that sets a span takes Begin from its first node parameter " +
			"and End from its last one, like its sibling reducers with the same parameter types",
		Run: runReducerSpans,
	})
}

type jrDesc struct {
	kind       int // 0 spanned, 1 empty, 2 nospan, 3 unknown
	self       bool
	begin, end []string
	hasB, hasE bool
	what       string
}

const (
	jrSpanned = iota
	jrEmpty
	jrNoSpan
	jrUnknown
)

type jrResolver struct {
	c     *Ctx
	memo  map[*types.Func][]jrDesc
	busy  map[*types.Func]bool
	depth int
}

type jrEnv struct {
	p      *packages.Package
	fd     *ast.FuncDecl
	params map[types.Object]int // absolute parameter index
	seen   map[types.Object]bool
}

func jrIsNode(t types.Type) (node, slice bool) {
	if t == nil {
		return false, false
	}
	if s, ok := t.Underlying().(*types.Slice); ok {
		if n, ok := types.Unalias(s.Elem()).(*types.Named); ok && n.Obj().Name() == "Expression" && n.Obj().Pkg() != nil && n.Obj().Pkg().Path() == ModulePath {
			return true, true
		}
		return false, false
	}
	if n, ok := types.Unalias(t).(*types.Named); ok && n.Obj().Name() == "Expression" && n.Obj().Pkg() != nil && n.Obj().Pkg().Path() == ModulePath {
		return true, false
	}
	return false, false
}

func jrAdd(list []string, xs ...string) []string {
	for _, x := range xs {
		dup := false
		for _, y := range list {
			if y == x {
				dup = true
			}
		}
		if !dup {
			list = append(list, x)
		}
	}
	return list
}

func (r *jrResolver) newEnv(p *packages.Package, fd *ast.FuncDecl) *jrEnv {
	env := &jrEnv{p: p, fd: fd, params: map[types.Object]int{}, seen: map[types.Object]bool{}}
	k := 0
	for _, fl := range fd.Type.Params.List {
		if len(fl.Names) == 0 {
			k++
		}
		for _, n := range fl.Names {
			env.params[p.TypesInfo.Defs[n]] = k
			k++
		}
	}
	return env
}

// assignedValues lists the expressions assigned to a local variable or parameter in the function.
func (env *jrEnv) assignedValues(obj types.Object) (vals []ast.Expr, odd bool) {
	info := env.p.TypesInfo
	ast.Inspect(env.fd.Body, func(n ast.Node) bool {
		switch x := n.(type) {
		case *ast.AssignStmt:
			for i, l := range x.Lhs {
				id, ok := l.(*ast.Ident)
				if !ok || info.ObjectOf(id) != obj {
					continue
				}
				if len(x.Lhs) == len(x.Rhs) && (x.Tok == token.ASSIGN || x.Tok == token.DEFINE) {
					vals = append(vals, x.Rhs[i])
				} else {
					odd = true
				}
			}
		case *ast.ValueSpec:
			for i, n := range x.Names {
				if info.ObjectOf(n) == obj {
					if i < len(x.Values) {
						vals = append(vals, x.Values[i])
					} else if len(x.Values) != 0 {
						odd = true
					}
				}
			}
		case *ast.RangeStmt:
			for _, e := range []ast.Expr{x.Key, x.Value} {
				if id, ok := e.(*ast.Ident); ok && info.ObjectOf(id) == obj {
					odd = true
				}
			}
		}
		return true
	})
	return
}

// nodeRef resolves an expression denoting an existing node to a root name: "P<i>", "P<i>[0]",
// "P<i>[last]", "S:<text>"; "" when it is not one.
func (env *jrEnv) nodeRef(e ast.Expr) string {
	info := env.p.TypesInfo
	e = ast.Unparen(e)
	switch x := e.(type) {
	case *ast.Ident:
		if i, ok := env.params[info.ObjectOf(x)]; ok {
			if vals, _ := env.assignedValues(info.ObjectOf(x)); len(vals) == 0 {
				return fmt.Sprintf("P%d", i)
			}
		}
	case *ast.IndexExpr:
		id, ok := ast.Unparen(x.X).(*ast.Ident)
		if !ok {
			return ""
		}
		i, ok := env.params[info.ObjectOf(id)]
		if !ok {
			return ""
		}
		if k := jConst(info, x.Index); k != nil && k.ExactString() == "0" {
			return fmt.Sprintf("P%d[0]", i)
		}
		if b, ok := ast.Unparen(x.Index).(*ast.BinaryExpr); ok && b.Op == token.SUB {
			if call, ok := ast.Unparen(b.X).(*ast.CallExpr); ok && isBuiltin(info, call, "len") && len(call.Args) == 1 && sameExpr(info, call.Args[0], id) {
				if k := jConst(info, b.Y); k != nil && k.ExactString() == "1" {
					return fmt.Sprintf("P%d[last]", i)
				}
			}
		}
		return fmt.Sprintf("P%d[?]", i)
	case *ast.SelectorExpr:
		if isNode, _ := jrIsNode(info.TypeOf(x)); isNode {
			root := x.X
			for {
				if s, ok := ast.Unparen(root).(*ast.SelectorExpr); ok {
					root = s.X
					continue
				}
				break
			}
			if id, ok := ast.Unparen(root).(*ast.Ident); ok {
				if _, isParam := env.params[info.ObjectOf(id)]; isParam {
					if n, _ := jrIsNode(info.TypeOf(id)); !n {
						return "S:" + types.ExprString(x)
					}
				}
			}
		}
	}
	return ""
}

func (r *jrResolver) node(env *jrEnv, e ast.Expr) []jrDesc {
	info := env.p.TypesInfo
	e = ast.Unparen(e)
	if ref := env.nodeRef(e); ref != "" {
		return []jrDesc{{kind: jrSpanned, self: true, begin: []string{ref + ".Begin"}, end: []string{ref + ".End"}, hasB: true, hasE: true, what: ref}}
	}
	switch x := e.(type) {
	case *ast.CompositeLit:
		if n, sl := jrIsNode(info.TypeOf(x)); !n || sl {
			break
		}
		if len(x.Elts) == 0 {
			return []jrDesc{{kind: jrEmpty}}
		}
		d := jrDesc{kind: jrSpanned, what: "literal at " + r.c.Position(x.Pos())}
		for _, el := range x.Elts {
			kv, ok := el.(*ast.KeyValueExpr)
			if !ok {
				return []jrDesc{{kind: jrUnknown, what: "positional b6.Expression literal at " + r.c.Position(x.Pos())}}
			}
			if id, ok := kv.Key.(*ast.Ident); ok {
				switch id.Name {
				case "Begin":
					d.hasB = true
					d.begin = jrAdd(d.begin, r.pos(env, kv.Value)...)
				case "End":
					d.hasE = true
					d.end = jrAdd(d.end, r.pos(env, kv.Value)...)
				}
			}
		}
		if !d.hasB && !d.hasE {
			d.kind = jrNoSpan
		}
		return []jrDesc{d}
	case *ast.Ident:
		obj := info.ObjectOf(x)
		if env.seen[obj] {
			return nil
		}
		env.seen[obj] = true
		defer delete(env.seen, obj)
		vals, odd := env.assignedValues(obj)
		if odd {
			return []jrDesc{{kind: jrUnknown, what: "variable " + x.Name + " is assigned in a way the rule does not follow"}}
		}
		var out []jrDesc
		if i, ok := env.params[obj]; ok {
			ref := fmt.Sprintf("P%d", i)
			out = append(out, jrDesc{kind: jrSpanned, self: true, begin: []string{ref + ".Begin"}, end: []string{ref + ".End"}, hasB: true, hasE: true, what: ref})
		} else if len(vals) == 0 {
			return []jrDesc{{kind: jrUnknown, what: "variable " + x.Name + " has no visible assignment"}}
		}
		for _, v := range vals {
			out = append(out, r.node(env, v)...)
		}
		return out
	case *ast.CallExpr:
		f := calleeFunc(info, x)
		if f == nil {
			break
		}
		cfd, cp := r.c.Decl(f)
		if cfd == nil || cfd.Body == nil {
			break
		}
		var out []jrDesc
		for _, d := range r.summary(f, cfd, cp) {
			out = append(out, r.substitute(env, d, x)...)
		}
		return out
	}
	return []jrDesc{{kind: jrUnknown, what: "node " + jShort(types.ExprString(e)) + " of unknown origin at " + r.c.Position(e.Pos())}}
}

// summary: what a module function returns, in terms of its own parameters.
func (r *jrResolver) summary(f *types.Func, fd *ast.FuncDecl, p *packages.Package) []jrDesc {
	f = f.Origin()
	if s, ok := r.memo[f]; ok {
		return s
	}
	if r.busy[f] || r.depth > 3 {
		return []jrDesc{{kind: jrUnknown, what: "recursion or call depth at " + f.Name()}}
	}
	r.busy[f] = true
	r.depth++
	env := r.newEnv(p, fd)
	var out []jrDesc
	inspectShallow(fd.Body, func(n ast.Node) bool {
		if ret, ok := n.(*ast.ReturnStmt); ok {
			if len(ret.Results) == 1 {
				out = append(out, r.node(env, ret.Results[0])...)
			} else {
				out = append(out, jrDesc{kind: jrUnknown, what: "return with " + fmt.Sprint(len(ret.Results)) + " results at " + r.c.Position(ret.Pos())})
			}
		}
		return true
	})
	r.depth--
	delete(r.busy, f)
	r.memo[f] = out
	return out
}

// substitute rewrites a callee's description with the caller's arguments.
func (r *jrResolver) substitute(env *jrEnv, d jrDesc, call *ast.CallExpr) []jrDesc {
	if d.kind != jrSpanned {
		return []jrDesc{d}
	}
	if d.self && strings.HasPrefix(d.what, "P") && !strings.Contains(d.what, "[") {
		// the callee hands back its parameter: the caller's argument itself
		idx := 0
		fmt.Sscanf(d.what, "P%d", &idx)
		if idx < len(call.Args) {
			return r.node(env, call.Args[idx])
		}
	}
	mapAtoms := func(atoms []string) ([]string, string) {
		var out []string
		for _, a := range atoms {
			if !strings.HasPrefix(a, "P") {
				out = jrAdd(out, a)
				continue
			}
			// P<i><suffix>.<Field>
			dot := strings.LastIndex(a, ".")
			head, field := a[:dot], a[dot+1:]
			idx, suffix := 0, ""
			fmt.Sscanf(head, "P%d", &idx)
			if b := strings.Index(head, "["); b >= 0 {
				suffix = head[b:]
			}
			if idx >= len(call.Args) {
				return nil, "argument " + head + " not found"
			}
			arg := ast.Unparen(call.Args[idx])
			if suffix != "" {
				if lit, ok := arg.(*ast.CompositeLit); ok {
					if len(lit.Elts) == 0 {
						continue // element of an empty slice literal: this path does not exist
					}
					if suffix == "[0]" {
						arg = lit.Elts[0]
					} else {
						arg = lit.Elts[len(lit.Elts)-1]
					}
					suffix = ""
				}
			}
			if suffix != "" {
				if ref := env.nodeRef(arg); ref != "" && !strings.Contains(ref, "[") {
					out = jrAdd(out, ref+suffix+"."+field)
					continue
				}
				return nil, "element of " + types.ExprString(arg)
			}
			for _, nd := range r.node(env, arg) {
				switch nd.kind {
				case jrSpanned:
					if field == "Begin" {
						out = jrAdd(out, nd.begin...)
					} else {
						out = jrAdd(out, nd.end...)
					}
				case jrEmpty, jrNoSpan:
					out = jrAdd(out, "none")
				default:
					return nil, nd.what
				}
			}
		}
		return out, ""
	}
	nd := jrDesc{kind: jrSpanned, hasB: d.hasB, hasE: d.hasE, what: d.what}
	var why string
	if nd.begin, why = mapAtoms(d.begin); why != "" {
		return []jrDesc{{kind: jrUnknown, what: "cannot substitute " + why + " in the call at " + r.c.Position(call.Pos())}}
	}
	if nd.end, why = mapAtoms(d.end); why != "" {
		return []jrDesc{{kind: jrUnknown, what: "cannot substitute " + why + " in the call at " + r.c.Position(call.Pos())}}
	}
	return []jrDesc{nd}
}

// pos resolves an integer position expression to atoms.
func (r *jrResolver) pos(env *jrEnv, e ast.Expr) []string {
	info := env.p.TypesInfo
	e = ast.Unparen(e)
	switch x := e.(type) {
	case *ast.SelectorExpr:
		if x.Sel.Name == "Begin" || x.Sel.Name == "End" {
			if n, sl := jrIsNode(info.TypeOf(x.X)); n && !sl {
				if ref := env.nodeRef(x.X); ref != "" {
					return []string{ref + "." + x.Sel.Name}
				}
				var out []string
				for _, nd := range r.node(env, x.X) {
					switch nd.kind {
					case jrSpanned:
						if x.Sel.Name == "Begin" {
							out = jrAdd(out, nd.begin...)
						} else {
							out = jrAdd(out, nd.end...)
						}
					case jrEmpty, jrNoSpan:
						out = jrAdd(out, "none")
					default:
						out = jrAdd(out, "?:"+nd.what)
					}
				}
				return out
			}
		}
	case *ast.Ident:
		obj := info.ObjectOf(x)
		if _, isVar := obj.(*types.Var); isVar {
			if env.seen[obj] {
				return nil
			}
			env.seen[obj] = true
			defer delete(env.seen, obj)
			vals, odd := env.assignedValues(obj)
			if !odd && len(vals) > 0 {
				var out []string
				for _, v := range vals {
					out = jrAdd(out, r.pos(env, v)...)
				}
				return out
			}
		}
	}
	if k := jConst(info, e); k != nil {
		return []string{"const:" + k.ExactString()}
	}
	return []string{"?:" + jShort(types.ExprString(e))}
}

type jrReducer struct {
	fn    *types.Func
	fd    *ast.FuncDecl
	nodes []int  // absolute indices of node parameters
	slice []bool // per node parameter
	names []string
	sig   string
	descs []jrDesc
}

func runReducerSpans(c *Ctx) []Obligation {
	p := c.Pkg("api")
	if p == nil {
		return nil
	}
	info := p.TypesInfo
	// callees of the generated parser
	called := map[*types.Func]bool{}
	for _, f := range p.Syntax {
		if !jGenerated(c, f.Pos()) {
			continue
		}
		ast.Inspect(f, func(n ast.Node) bool {
			if call, ok := n.(*ast.CallExpr); ok {
				if g := calleeFunc(info, call); g != nil && g.Pkg() == p.Types {
					called[g.Origin()] = true
				}
			}
			return true
		})
	}
	res := &jrResolver{c: c, memo: map[*types.Func][]jrDesc{}, busy: map[*types.Func]bool{}}
	var reducers []*jrReducer
	for _, fd := range c.FuncDecls(p) {
		fn, _ := info.Defs[fd.Name].(*types.Func)
		if fn == nil || !called[fn] || jGenerated(c, fd.Pos()) || fd.Recv != nil {
			continue
		}
		sig := fn.Type().(*types.Signature)
		if sig.Results().Len() != 1 {
			continue
		}
		if n, sl := jrIsNode(sig.Results().At(0).Type()); !n || sl {
			continue
		}
		rd := &jrReducer{fn: fn, fd: fd}
		var ts []string
		for i := 0; i < sig.Params().Len(); i++ {
			t := sig.Params().At(i).Type()
			ts = append(ts, jTypeString(t))
			if n, sl := jrIsNode(t); n {
				rd.nodes = append(rd.nodes, i)
				rd.slice = append(rd.slice, sl)
				rd.names = append(rd.names, sig.Params().At(i).Name())
			}
		}
		if len(rd.nodes) < 2 {
			continue
		}
		rd.sig = strings.Join(ts, ", ")
		rd.descs = res.summary(fn, fd, p)
		reducers = append(reducers, rd)
	}

	// expected sources
	type verdict struct {
		status      string
		detail      string
		beginSrc    []string
		endSrc      []string
		setsSpan    bool
		conforms    bool
		description string
	}
	pretty := func(rd *jrReducer, atoms []string) string {
		var out []string
		for _, a := range atoms {
			s := a
			for k, idx := range rd.nodes {
				s = strings.Replace(s, fmt.Sprintf("P%d.", idx), rd.names[k]+".", 1)
				s = strings.Replace(s, fmt.Sprintf("P%d[", idx), rd.names[k]+"[", 1)
			}
			s = strings.TrimPrefix(s, "S:")
			out = append(out, s)
		}
		sort.Strings(out)
		return strings.Join(out, " | ")
	}
	verdicts := map[*jrReducer]*verdict{}
	for _, rd := range reducers {
		v := &verdict{}
		verdicts[rd] = v
		var spanned, poor []jrDesc
		var unknown []string
		for _, d := range rd.descs {
			switch {
			case d.kind == jrEmpty:
			case d.kind == jrUnknown:
				unknown = append(unknown, d.what)
			case d.kind == jrNoSpan || d.self:
				poor = append(poor, d)
			default:
				spanned = append(spanned, d)
			}
		}
		if len(unknown) > 0 {
			v.status, v.detail = Undecided, "cannot resolve what is returned: "+strings.Join(unknown, "; ")
			continue
		}
		if len(spanned) == 0 {
			if len(poor) == 0 {
				v.status, v.detail = Undecided, "returns only empty nodes"
				continue
			}
			var how []string
			for _, d := range poor {
				if d.self {
					how = jrAdd(how, "hands back its parameter "+strings.TrimSuffix(pretty(rd, []string{d.what + "."}), ".")+" (the span is not extended to the other operands)")
				} else {
					how = jrAdd(how, "builds the node without Begin/End ("+d.what+"): its span is 0,0")
				}
			}
			v.status, v.detail = Info, "sets no span: "+strings.Join(how, "; ")+" — poor spans, not contradicting any sibling"
			continue
		}
		v.setsSpan = true
		// allowed atoms
		first, last := 0, len(rd.nodes)-1
		prim := func(k int, field string) string {
			if rd.slice[k] {
				if field == "Begin" {
					return fmt.Sprintf("P%d[0].Begin", rd.nodes[k])
				}
				return fmt.Sprintf("P%d[last].End", rd.nodes[k])
			}
			return fmt.Sprintf("P%d.%s", rd.nodes[k], field)
		}
		allowedB := map[string]bool{prim(first, "Begin"): true}
		for k := first; rd.slice[k] && k+1 < len(rd.nodes); k++ {
			allowedB[prim(k+1, "Begin")] = true
		}
		allowedE := map[string]bool{prim(last, "End"): true}
		for k := last; rd.slice[k] && k-1 >= 0; k-- {
			allowedE[prim(k-1, "End")] = true
		}
		var bad, unk []string
		for _, d := range append(spanned, poor...) {
			if d.kind == jrNoSpan || d.self {
				bad = append(bad, "one path sets a span, another returns a node without one ("+d.what+")")
				continue
			}
			if !d.hasB || !d.hasE {
				bad = append(bad, fmt.Sprintf("%s sets only one of Begin/End", d.what))
			}
			v.beginSrc = jrAdd(v.beginSrc, d.begin...)
			v.endSrc = jrAdd(v.endSrc, d.end...)
			hasPrimB, hasPrimE := false, false
			for _, a := range d.begin {
				switch {
				case strings.HasPrefix(a, "?:"):
					unk = append(unk, "Begin = "+a[2:])
				case allowedB[a]:
					if a == prim(first, "Begin") {
						hasPrimB = true
					}
				case strings.HasPrefix(a, "S:") && strings.HasSuffix(a, ".Begin"):
				default:
					bad = append(bad, fmt.Sprintf("Begin is taken from %s, not from the first operand %s", pretty(rd, []string{a}), pretty(rd, []string{prim(first, "Begin")})))
				}
			}
			for _, a := range d.end {
				switch {
				case strings.HasPrefix(a, "?:"):
					unk = append(unk, "End = "+a[2:])
				case allowedE[a]:
					if a == prim(last, "End") {
						hasPrimE = true
					}
				default:
					bad = append(bad, fmt.Sprintf("End is taken from %s, not from the last operand %s", pretty(rd, []string{a}), pretty(rd, []string{prim(last, "End")})))
				}
			}
			if d.hasB && !hasPrimB && len(bad) == 0 && len(unk) == 0 {
				bad = append(bad, "Begin never comes from the first operand "+pretty(rd, []string{prim(first, "Begin")}))
			}
			if d.hasE && !hasPrimE && len(bad) == 0 && len(unk) == 0 {
				bad = append(bad, "End never comes from the last operand "+pretty(rd, []string{prim(last, "End")}))
			}
		}
		v.description = fmt.Sprintf("Begin = %s, End = %s", pretty(rd, v.beginSrc), pretty(rd, v.endSrc))
		switch {
		case len(bad) > 0:
			v.status, v.detail = Violation, v.description+": "+strings.Join(jrAdd(nil, bad...), "; ")
		case len(unk) > 0:
			v.status, v.detail = Undecided, v.description+": "+strings.Join(unk, "; ")
		default:
			v.status, v.detail, v.conforms = OK, v.description+": first operand to last operand", true
		}
	}
	// siblings
	var out []Obligation
	for _, rd := range reducers {
		v := verdicts[rd]
		var sibs, good []string
		for _, o := range reducers {
			if o != rd && o.sig == rd.sig && verdicts[o].setsSpan {
				sibs = append(sibs, o.fn.Name())
				if verdicts[o].conforms {
					good = append(good, fmt.Sprintf("%s (%s)", o.fn.Name(), verdicts[o].description))
				}
			}
		}
		detail := fmt.Sprintf("%s(%s): %s", rd.fn.Name(), rd.sig, v.detail)
		if v.setsSpan {
			switch {
			case v.status == Violation && len(good) > 0:
				detail += "; disagrees with its sibling(s) of the same parameter types " + strings.Join(good, ", ")
			case v.status == OK && len(sibs) > 0:
				detail += "; siblings with the same parameter types: " + strings.Join(sibs, ", ")
			}
		}
		out = append(out, Obligation{Key: c.FuncName(p, rd.fd) + "#1", Pos: c.Position(rd.fd.Pos()), Status: v.status, Detail: detail})
	}
	return out
}
