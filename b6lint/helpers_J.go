package main

// Helpers shared by the rules of group J (VARIANT, EQUAL-TYPE, ALIAS-TABLE, LESS-LEX, NS-SORT,
// YAML-KEYS, UNSAT-GUARD). Every identifier is prefixed with j/J.

import (
	"go/ast"
	"go/constant"
	"go/token"
	"go/types"
	"strings"
	"sync"

	"golang.org/x/tools/go/packages"
)

// ---------------------------------------------------------------------------------------------
// protobuf oneofs

// jProto indexes the oneof interfaces of the module's proto package and their wrapper structs.
type jProto struct {
	pkg      *types.Package
	oneofs   []*types.Named                     // interfaces with one unexported marker method
	oneofOf  map[*types.TypeName]*types.Named   // wrapper struct -> its oneof interface
	wrappers map[*types.TypeName][]*types.Named // oneof interface -> wrapper structs, by name
}

var (
	jProtoMu    sync.Mutex
	jProtoCache = map[*Ctx]*jProto{}
)

func jProtoIndex(c *Ctx) *jProto {
	jProtoMu.Lock()
	defer jProtoMu.Unlock()
	if p, ok := jProtoCache[c]; ok {
		return p
	}
	jp := &jProto{oneofOf: map[*types.TypeName]*types.Named{}, wrappers: map[*types.TypeName][]*types.Named{}}
	jProtoCache[c] = jp
	pp := c.Pkg("proto")
	if pp == nil {
		return jp
	}
	jp.pkg = pp.Types
	scope := pp.Types.Scope()
	names := scope.Names() // sorted
	for _, n := range names {
		tn, ok := scope.Lookup(n).(*types.TypeName)
		if !ok {
			continue
		}
		if named := jOneofIface(tn.Type()); named != nil {
			jp.oneofs = append(jp.oneofs, named)
		}
	}
	for _, n := range names {
		tn, ok := scope.Lookup(n).(*types.TypeName)
		if !ok {
			continue
		}
		named, ok := tn.Type().(*types.Named)
		if !ok {
			continue
		}
		if _, isStruct := named.Underlying().(*types.Struct); !isStruct {
			continue
		}
		for _, o := range jp.oneofs {
			if types.Implements(types.NewPointer(named), o.Underlying().(*types.Interface)) {
				jp.oneofOf[tn] = o
				jp.wrappers[o.Obj()] = append(jp.wrappers[o.Obj()], named)
			}
		}
	}
	return jp
}

// jOneofIface returns t if it is a protobuf oneof interface of the module's proto package:
// a named interface with exactly one method, unexported.
func jOneofIface(t types.Type) *types.Named {
	if t == nil {
		return nil
	}
	n, _ := types.Unalias(t).(*types.Named)
	if n == nil || n.Obj().Pkg() == nil || n.Obj().Pkg().Path() != ModulePath+"/proto" {
		return nil
	}
	it, _ := n.Underlying().(*types.Interface)
	if it == nil || it.NumMethods() != 1 || it.Method(0).Exported() {
		return nil
	}
	return n
}

// jSwitchOperand returns the operand x of `switch [v :=] x.(type)`.
func jSwitchOperand(sw *ast.TypeSwitchStmt) ast.Expr {
	var e ast.Expr
	switch a := sw.Assign.(type) {
	case *ast.AssignStmt:
		if len(a.Rhs) == 1 {
			e = a.Rhs[0]
		}
	case *ast.ExprStmt:
		e = a.X
	}
	if ta, ok := ast.Unparen(e).(*ast.TypeAssertExpr); ok && ta.Type == nil {
		return ta.X
	}
	return nil
}

// jCase is one leaf case of a (possibly nested) type switch over protobuf oneofs.
type jCase struct {
	pkg    *packages.Package
	fn     *ast.FuncDecl
	fname  string
	sw     *ast.TypeSwitchStmt
	clause *ast.CaseClause
	chain  []*types.Named // wrappers from the outermost switch to this case
	ord    int            // ordinal of the leaf in the function, source order
	res    *jResult
}

func (k *jCase) leaf() *types.Named { return k.chain[len(k.chain)-1] }

func (k *jCase) chainString() string {
	var s []string
	for _, w := range k.chain {
		s = append(s, w.Obj().Name())
	}
	return strings.Join(s, " > ")
}

// jResult summarises what a case can return.
type jResult struct {
	dyn      []types.Type // dynamic types of values returned together with a possibly nil error
	nilDyn   []token.Pos  // returns with a possibly nil error whose value has no dynamic type
	noReturn token.Pos    // set when the converter can never return (unconditional panic)
	fails    int          // returns classified as failures
	unknown  []string     // idioms the analysis does not know
}

func (r *jResult) addDyn(t types.Type) {
	for _, x := range r.dyn {
		if types.Identical(x, t) {
			return
		}
	}
	r.dyn = append(r.dyn, t)
}

func (r *jResult) merge(o *jResult) {
	for _, t := range o.dyn {
		r.addDyn(t)
	}
	r.nilDyn = append(r.nilDyn, o.nilDyn...)
	if o.noReturn.IsValid() {
		r.noReturn = o.noReturn
	}
	r.fails += o.fails
	r.unknown = append(r.unknown, o.unknown...)
}

// rejecting: the case exists but every return reports an error.
func (r *jResult) rejecting() bool {
	return len(r.dyn) == 0 && len(r.nilDyn) == 0 && !r.noReturn.IsValid() && len(r.unknown) == 0 && r.fails > 0
}

type jOneofSwitches struct {
	cases    []*jCase
	switches int // number of oneof type switches (nested ones included)
}

var (
	jCasesMu    sync.Mutex
	jCasesCache = map[*Ctx]*jOneofSwitches{}
)

// jFromProtoCases discovers, in the root package, every type switch whose operand has a protobuf
// oneof interface type, inside a function returning (T, error), and summarises every leaf case.
func jFromProtoCases(c *Ctx) *jOneofSwitches {
	jCasesMu.Lock()
	defer jCasesMu.Unlock()
	if r, ok := jCasesCache[c]; ok {
		return r
	}
	out := &jOneofSwitches{}
	jCasesCache[c] = out
	p := c.Pkg("")
	if p == nil {
		return out
	}
	jp := jProtoIndex(c)
	an := &jAnalyser{c: c, memo: map[*types.Func]*jResult{}, busy: map[*types.Func]bool{}}
	for _, fd := range c.FuncDecls(p) {
		sig, _ := p.TypesInfo.Defs[fd.Name].Type().(*types.Signature)
		if sig == nil || sig.Results().Len() != 2 || !jIsError(sig.Results().At(1).Type()) {
			continue
		}
		ord := 0
		var visit func(n ast.Node, chain []*types.Named)
		visit = func(root ast.Node, chain []*types.Named) {
			ast.Inspect(root, func(n ast.Node) bool {
				sw, ok := n.(*ast.TypeSwitchStmt)
				if !ok || n == root {
					return true
				}
				x := jSwitchOperand(sw)
				if x == nil || jOneofIface(p.TypesInfo.TypeOf(x)) == nil {
					return true
				}
				out.switches++
				for _, s := range sw.Body.List {
					cl := s.(*ast.CaseClause)
					for _, te := range cl.List {
						w := namedOf(p.TypesInfo.TypeOf(te))
						if w == nil || jp.oneofOf[w.Obj()] == nil {
							continue
						}
						ch := append(append([]*types.Named(nil), chain...), w)
						if jHasOneofSwitch(p.TypesInfo, cl) {
							visit(cl, ch)
							continue
						}
						ord++
						k := &jCase{pkg: p, fn: fd, fname: c.FuncName(p, fd), sw: sw, clause: cl, chain: ch, ord: ord}
						k.res = an.caseResult(p, fd, sw, cl, sig.Results().At(0).Type())
						out.cases = append(out.cases, k)
					}
				}
				return false
			})
		}
		visit(fd.Body, nil)
	}
	return out
}

func jHasOneofSwitch(info *types.Info, root ast.Node) bool {
	found := false
	ast.Inspect(root, func(n ast.Node) bool {
		if sw, ok := n.(*ast.TypeSwitchStmt); ok {
			if x := jSwitchOperand(sw); x != nil && jOneofIface(info.TypeOf(x)) != nil {
				found = true
			}
		}
		return !found
	})
	return found
}

func jIsError(t types.Type) bool {
	n, _ := types.Unalias(t).(*types.Named)
	return n != nil && n.Obj().Pkg() == nil && n.Obj().Name() == "error"
}

type jAnalyser struct {
	c    *Ctx
	memo map[*types.Func]*jResult
	busy map[*types.Func]bool
}

// caseResult analyses the returns of one case body. When the body can complete normally, the
// statements that follow the switch (in every enclosing statement list) are part of the case.
func (a *jAnalyser) caseResult(p *packages.Package, fd *ast.FuncDecl, sw *ast.TypeSwitchStmt, cl *ast.CaseClause, rt types.Type) *jResult {
	res := &jResult{}
	a.returnsOf(p, fd, cl.Body, rt, res)
	if jFallsThrough(p.TypesInfo, cl.Body) {
		chain := enclosing(fd.Body, sw)
		child := ast.Node(sw)
		for i := len(chain) - 2; i >= 0; i-- {
			var list []ast.Stmt
			switch x := chain[i].(type) {
			case *ast.BlockStmt:
				list = x.List
			case *ast.CaseClause:
				list = x.Body
			case *ast.ForStmt, *ast.RangeStmt:
				res.unknown = append(res.unknown, "the case falls out of a switch inside a loop")
				return res
			}
			if _, isClause := child.(*ast.CaseClause); isClause {
				list = nil // the siblings of a clause are other clauses, not a continuation
			}
			if list != nil {
				idx := -1
				for j, s := range list {
					if ast.Node(s) == child {
						idx = j
					}
				}
				if idx >= 0 {
					tail := list[idx+1:]
					a.returnsOf(p, fd, tail, rt, res)
					if !jFallsThrough(p.TypesInfo, tail) && len(tail) > 0 {
						break
					}
				}
			}
			child = chain[i]
		}
	}
	return res
}

// jFallsThrough: can the statement list complete normally? (syntactic, conservative: true when unsure)
func jFallsThrough(info *types.Info, list []ast.Stmt) bool {
	if len(list) == 0 {
		return true
	}
	switch s := list[len(list)-1].(type) {
	case *ast.ReturnStmt:
		return false
	case *ast.ExprStmt:
		if call, ok := s.X.(*ast.CallExpr); ok && noReturn(info, call) {
			return false
		}
	case *ast.IfStmt:
		if s.Else == nil {
			return true
		}
		var elseList []ast.Stmt
		switch e := s.Else.(type) {
		case *ast.BlockStmt:
			elseList = e.List
		case *ast.IfStmt:
			elseList = []ast.Stmt{e}
		}
		return jFallsThrough(info, s.Body.List) || jFallsThrough(info, elseList)
	case *ast.BlockStmt:
		return jFallsThrough(info, s.List)
	}
	return true
}

func (a *jAnalyser) returnsOf(p *packages.Package, fd *ast.FuncDecl, list []ast.Stmt, rt types.Type, res *jResult) {
	info := p.TypesInfo
	for _, s := range list {
		inspectShallow(s, func(n ast.Node) bool {
			r, ok := n.(*ast.ReturnStmt)
			if !ok {
				return true
			}
			switch len(r.Results) {
			case 1:
				call, ok := ast.Unparen(r.Results[0]).(*ast.CallExpr)
				if !ok {
					res.unknown = append(res.unknown, a.c.Position(r.Pos())+": return of a single non-call value")
					return true
				}
				f := calleeFunc(info, call)
				if f == nil {
					res.unknown = append(res.unknown, a.c.Position(r.Pos())+": return of a dynamic call")
					return true
				}
				res.merge(a.funcResult(f, r.Pos()))
			case 2:
				if jIsFailure(info, fd.Body, r, r.Results[1]) {
					res.fails++
					return true
				}
				a.dynType(p, r.Results[0], rt, res)
			default:
				res.unknown = append(res.unknown, a.c.Position(r.Pos())+": bare return")
			}
			return true
		})
	}
}

// funcResult summarises a converter function `func(...) (T, error)` of the module.
func (a *jAnalyser) funcResult(f *types.Func, at token.Pos) *jResult {
	f = f.Origin()
	if r, ok := a.memo[f]; ok {
		return r
	}
	res := &jResult{}
	if a.busy[f] {
		return res // recursion: contributes nothing new
	}
	fd, p := a.c.Decl(f)
	if fd == nil || fd.Body == nil {
		res.unknown = append(res.unknown, a.c.Position(at)+": callee "+f.FullName()+" has no body in the module")
		return res
	}
	sig := f.Type().(*types.Signature)
	if sig.Results().Len() != 2 || !jIsError(sig.Results().At(1).Type()) {
		res.unknown = append(res.unknown, a.c.Position(at)+": callee "+f.FullName()+" does not return (T, error)")
		return res
	}
	a.busy[f] = true
	a.returnsOf(p, fd, fd.Body.List, sig.Results().At(0).Type(), res)
	delete(a.busy, f)
	if len(res.dyn) == 0 && len(res.nilDyn) == 0 && res.fails == 0 && len(res.unknown) == 0 {
		// no return statement at all
		if !jFallsThrough(p.TypesInfo, fd.Body.List) {
			res.noReturn = fd.Body.List[len(fd.Body.List)-1].Pos()
		} else {
			res.unknown = append(res.unknown, a.c.Position(fd.Pos())+": converter without a return statement")
		}
	}
	a.memo[f] = res
	return res
}

// jIsFailure classifies `return v, e`: a failure when e is built by fmt.Errorf/errors.New, or when
// e is an error variable and the return sits in the then-branch of `e != nil` / the else-branch of
// `e == nil`.
func jIsFailure(info *types.Info, root ast.Node, ret *ast.ReturnStmt, errx ast.Expr) bool {
	errx = ast.Unparen(errx)
	if tv, ok := info.Types[errx]; ok && tv.IsNil() {
		return false
	}
	if call, ok := errx.(*ast.CallExpr); ok {
		if f := calleeFunc(info, call); f != nil && f.Pkg() != nil {
			full := f.Pkg().Path() + "." + f.Name()
			return full == "fmt.Errorf" || full == "errors.New"
		}
		return false
	}
	id, ok := errx.(*ast.Ident)
	if !ok {
		return false
	}
	obj := info.ObjectOf(id)
	if obj == nil {
		return false
	}
	chain := enclosing(root, ret)
	for i := 0; i+1 < len(chain); i++ {
		ifs, ok := chain[i].(*ast.IfStmt)
		if !ok {
			continue
		}
		op, ok := jNilTest(info, ifs.Cond, obj)
		if !ok {
			continue
		}
		next := chain[i+1]
		if op == token.NEQ && next == ast.Node(ifs.Body) {
			return true
		}
		if op == token.EQL && ifs.Else != nil && next == ast.Node(ifs.Else) {
			return true
		}
	}
	return false
}

// jNilTest matches `obj != nil` / `obj == nil`.
func jNilTest(info *types.Info, cond ast.Expr, obj types.Object) (token.Token, bool) {
	b, ok := ast.Unparen(cond).(*ast.BinaryExpr)
	if !ok || (b.Op != token.NEQ && b.Op != token.EQL) {
		return 0, false
	}
	isObj := func(e ast.Expr) bool {
		id, ok := ast.Unparen(e).(*ast.Ident)
		return ok && info.ObjectOf(id) == obj
	}
	isNil := func(e ast.Expr) bool {
		tv, ok := info.Types[ast.Unparen(e)]
		return ok && tv.IsNil()
	}
	if (isObj(b.X) && isNil(b.Y)) || (isObj(b.Y) && isNil(b.X)) {
		return b.Op, true
	}
	return 0, false
}

// dynType determines the dynamic type carried by a returned value. rt is the declared result
// type: an interface (the value's static type is the dynamic type) or a carrier struct with
// exactly one interface-typed field (the value must be a composite literal of the carrier; the
// dynamic type is the static type of that field's element).
func (a *jAnalyser) dynType(p *packages.Package, val ast.Expr, rt types.Type, res *jResult) {
	info := p.TypesInfo
	val = ast.Unparen(val)
	where := a.c.Position(val.Pos())
	if types.IsInterface(rt) {
		tv := info.Types[val]
		if tv.IsNil() {
			res.nilDyn = append(res.nilDyn, val.Pos())
			return
		}
		if tv.Type == nil || types.IsInterface(tv.Type) {
			res.unknown = append(res.unknown, where+": returned value "+types.ExprString(val)+" has an interface static type")
			return
		}
		res.addDyn(tv.Type)
		return
	}
	st, _ := rt.Underlying().(*types.Struct)
	field := -1
	if st != nil {
		for i := 0; i < st.NumFields(); i++ {
			if types.IsInterface(st.Field(i).Type()) {
				if field >= 0 {
					field = -2
					break
				}
				field = i
			}
		}
	}
	if field < 0 {
		res.unknown = append(res.unknown, where+": result type "+rt.String()+" is neither an interface nor a struct carrying one interface")
		return
	}
	lit, ok := val.(*ast.CompositeLit)
	if !ok || !types.Identical(info.TypeOf(lit), rt) {
		res.unknown = append(res.unknown, where+": returned value "+types.ExprString(val)+" is not a composite literal of "+rt.String())
		return
	}
	var elt ast.Expr
	for i, e := range lit.Elts {
		if kv, ok := e.(*ast.KeyValueExpr); ok {
			if id, ok := kv.Key.(*ast.Ident); ok && id.Name == st.Field(field).Name() {
				elt = kv.Value
			}
		} else if i == field {
			elt = e
		}
	}
	if elt == nil {
		res.nilDyn = append(res.nilDyn, lit.Pos())
		return
	}
	tv := info.Types[ast.Unparen(elt)]
	if tv.IsNil() {
		res.nilDyn = append(res.nilDyn, lit.Pos())
		return
	}
	if tv.Type == nil || types.IsInterface(tv.Type) {
		res.unknown = append(res.unknown, where+": "+types.ExprString(elt)+" has an interface static type")
		return
	}
	res.addDyn(tv.Type)
}

// jMethodDecl resolves method `name` in the method set of t (or *t) to its declaration.
func jMethodDecl(c *Ctx, t types.Type, name string) (*types.Func, *ast.FuncDecl, *packages.Package) {
	pkg := (*types.Package)(nil)
	if n := namedOf(t); n != nil {
		pkg = n.Obj().Pkg()
	}
	obj, _, _ := types.LookupFieldOrMethod(t, true, pkg, name)
	f, _ := obj.(*types.Func)
	if f == nil {
		return nil, nil, nil
	}
	fd, p := c.Decl(f)
	return f, fd, p
}

// jConstructedWrappers lists the oneof wrapper structs built by composite literals in a body.
func jConstructedWrappers(jp *jProto, info *types.Info, body ast.Node) []*ast.CompositeLit {
	var out []*ast.CompositeLit
	ast.Inspect(body, func(n ast.Node) bool {
		if lit, ok := n.(*ast.CompositeLit); ok {
			if w, ok := types.Unalias(info.TypeOf(lit)).(*types.Named); ok && jp.oneofOf[w.Obj()] != nil {
				out = append(out, lit)
			}
		}
		return true
	})
	return out
}

// jAssertedTypes lists the types a method asserts on its (single, interface-typed) parameter:
// `p.(T)` expressions and the case types of `switch [x :=] p.(type)`.
func jAssertedTypes(info *types.Info, fd *ast.FuncDecl) ([]types.Type, bool) {
	if fd.Type.Params == nil || len(fd.Type.Params.List) != 1 || len(fd.Type.Params.List[0].Names) != 1 {
		return nil, false
	}
	param := info.Defs[fd.Type.Params.List[0].Names[0]]
	if param == nil || !types.IsInterface(param.Type()) {
		return nil, false
	}
	isParam := func(e ast.Expr) bool {
		id, ok := ast.Unparen(e).(*ast.Ident)
		return ok && info.ObjectOf(id) == param
	}
	var out []types.Type
	ast.Inspect(fd.Body, func(n ast.Node) bool {
		switch x := n.(type) {
		case *ast.TypeAssertExpr:
			if x.Type != nil && isParam(x.X) {
				out = append(out, info.TypeOf(x.Type))
			}
		case *ast.TypeSwitchStmt:
			if op := jSwitchOperand(x); op != nil && isParam(op) {
				for _, s := range x.Body.List {
					for _, te := range s.(*ast.CaseClause).List {
						if t := info.TypeOf(te); t != nil {
							out = append(out, t)
						}
					}
				}
			}
		}
		return true
	})
	return out, true
}

func jTypeString(t types.Type) string {
	return types.TypeString(t, func(p *types.Package) string {
		if p.Path() == ModulePath {
			return "b6"
		}
		return p.Name()
	})
}

func jTypeStrings(ts []types.Type) string {
	var s []string
	for _, t := range ts {
		s = append(s, jTypeString(t))
	}
	return strings.Join(s, ", ")
}

// jGenerated reports generated code by the name of the file the node is really in. The engine's
// IsGenerated looks at the //line-adjusted position, which for goyacc output (y.go) names shell.y
// and yaccpar, so y.go slips through Ctx.FuncDecls; rules of package api filter with this.
func jGenerated(c *Ctx, pos token.Pos) bool {
	name := c.Fset.PositionFor(pos, false).Filename
	if i := strings.LastIndexByte(name, '/'); i >= 0 {
		name = name[i+1:]
	}
	return strings.HasSuffix(name, ".pb.go") || name == "y.go"
}

// ---------------------------------------------------------------------------------------------
// constants

func jConstString(info *types.Info, e ast.Expr) (string, bool) {
	tv, ok := info.Types[ast.Unparen(e)]
	if !ok || tv.Value == nil || tv.Value.Kind() != constant.String {
		return "", false
	}
	return constant.StringVal(tv.Value), true
}

func jConst(info *types.Info, e ast.Expr) constant.Value {
	tv, ok := info.Types[ast.Unparen(e)]
	if !ok {
		return nil
	}
	return tv.Value
}

// jFuncOfExpr resolves an expression naming a function (identifier or selector) to its object.
func jFuncOfExpr(info *types.Info, e ast.Expr) *types.Func {
	switch x := ast.Unparen(e).(type) {
	case *ast.Ident:
		f, _ := info.ObjectOf(x).(*types.Func)
		return f
	case *ast.SelectorExpr:
		f, _ := info.ObjectOf(x.Sel).(*types.Func)
		return f
	}
	return nil
}

// jCallees lists the functions statically called in a body, in sorted full-name order.
func jCallees(info *types.Info, body ast.Node) map[string]*ast.CallExpr {
	out := map[string]*ast.CallExpr{}
	ast.Inspect(body, func(n ast.Node) bool {
		if call, ok := n.(*ast.CallExpr); ok {
			if f := calleeFunc(info, call); f != nil {
				if _, dup := out[f.FullName()]; !dup {
					out[f.FullName()] = call
				}
			}
		}
		return true
	})
	return out
}
