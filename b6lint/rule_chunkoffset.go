package main

import (
	"fmt"
	"go/ast"
	"go/types"
)

// CHUNK-OFFSET (C29): a multipolygon's polygons are lists of rings of different lengths, and each
// polygon of the area is given its own list of path IDs. Carving those lists out of one shared
// buffer needs the running offset — the sum of the lengths of the chunks before — not the chunk's
// index: `buf[i : i+len(chunk)]` with the loop index i is right only while every earlier chunk has
// one element, which is exactly the inputs the tests have (polygons without holes).
//
// Subjects, by shape (whole module): range loops whose value is itself a slice (a chunk) and whose
// body hands a slice to a call or stores it. Obligation per loop: no slice expression in the body
// starts at the loop's index variable and ends at index+len(chunk) (or index+k for a length taken
// from the chunk). Loops that make a fresh slice per chunk, or slice at an offset they accumulate,
// satisfy it. ingest/osm.go carries C29; elsewhere the verdict is informational.
func init() {
	register(&Rule{
		Name:  "CHUNK-OFFSET",
		IR:    "ast",
		Props: []string{"C29"},
		Floor: 1,
		Doc:   "where a loop over variable-length chunks takes each chunk's share of a common buffer, the share starts at the running offset, not at the chunk's index (`buf[i:i+len(chunk)]` is right only while every earlier chunk has one element)",
		Run:   runChunkOffset,
	})
}

func runChunkOffset(c *Ctx) []Obligation {
	var out []Obligation
	for _, p := range c.SortedPkgs() {
		info := p.TypesInfo
		for _, fd := range c.FuncDecls(p) {
			if fd.Body == nil {
				continue
			}
			name := c.FuncName(p, fd)
			anchored := relPkg(p) == "ingest" && len(c.Position(fd.Pos())) > len("ingest/osm.go") && c.Position(fd.Pos())[:len("ingest/osm.go")] == "ingest/osm.go"
			ord := 0
			ast.Inspect(fd.Body, func(n ast.Node) bool {
				rs, ok := n.(*ast.RangeStmt)
				if !ok {
					return true
				}
				kid, ok1 := rs.Key.(*ast.Ident)
				vid, ok2 := rs.Value.(*ast.Ident)
				if !ok1 || !ok2 || kid.Name == "_" || vid.Name == "_" {
					return true
				}
				kv, vv := info.Defs[kid], info.Defs[vid]
				if kv == nil || vv == nil {
					return true
				}
				if _, isSlice := vv.Type().Underlying().(*types.Slice); !isSlice {
					return true
				}
				// the body builds or takes a slice per chunk: a make with len(chunk), or a slice expression
				relevant := false
				var bad *ast.SliceExpr
				mentions := func(e ast.Node, o types.Object) bool {
					found := false
					ast.Inspect(e, func(k ast.Node) bool {
						if id, ok := k.(*ast.Ident); ok && info.Uses[id] == o {
							found = true
						}
						return true
					})
					return found
				}
				ast.Inspect(rs.Body, func(m ast.Node) bool {
					switch x := m.(type) {
					case *ast.CallExpr:
						if isBuiltin(info, x, "make") && len(x.Args) >= 2 && mentions(x.Args[1], vv) {
							relevant = true
						}
					case *ast.SliceExpr:
						if x.Low == nil || x.High == nil {
							return true
						}
						if mentions(x.X, vv) {
							return true // slicing the chunk itself
						}
						relevant = true
						if lid, ok := ast.Unparen(x.Low).(*ast.Ident); ok && info.Uses[lid] == kv && mentions(x.High, kv) && mentions(x.High, vv) {
							bad = x
						}
					}
					return true
				})
				if !relevant {
					return true
				}
				ord++
				ob := Obligation{Key: fmt.Sprintf("%s#%d", name, ord), Pos: c.Position(rs.Pos()), Status: OK,
					Detail: fmt.Sprintf("the slice built for each %s is freshly made or taken at an accumulated offset", vid.Name)}
				if bad != nil {
					ob.Status = Violation
					ob.Pos = c.Position(bad.Pos())
					ob.Detail = fmt.Sprintf("%s starts each %s's share of the buffer at the loop index %s: the shares of variable-length chunks start at the sum of the lengths before them, so as soon as an earlier chunk has more than one element the shares overlap and are shifted", srcText(c.Fset, bad), vid.Name, kid.Name)
				}
				if !anchored {
					if ob.Status == Violation {
						ob.Detail = "verdict violation (outside ingest/osm.go): " + ob.Detail
					}
					ob.Status = Info
				}
				out = append(out, ob)
				return true
			})
		}
	}
	return out
}
