package main

import (
	"fmt"
	"go/ast"
	"go/types"
	"sort"
	"strings"
)

// OVERLAY-WRAP (C12): an overlay world records edits of plain tags of features that still live in
// its base in a side table (the "layer"), and shows them by wrapping what it reads from the base
// in views that consult the table. Two things follow for every struct that holds a layer next to
// the thing it reads from:
//
//	#out  a value read from the base whose type the layer can wrap (a feature, a segment, an
//	      iterator over either) does not leave the method except through the layer's wrapper for
//	      that type: otherwise the caller sees the base's tags and not the edited ones;
//	#in   what is handed to a wrapper of the layer was read from the base: the table holds
//	      entries for base features only, and an entry left behind when a feature was copied to
//	      the overlay would be applied on top of the copy.
//
// Discovery, by type and shape only: a layer is a named type with at least three methods of the
// shape func(X) X (its wrappers; X is "wrappable"). A holder is a struct type with a field of a
// layer type and at least one field of interface type (its bases). Subjects are the methods of
// holders. Inside a method, base values are: the result of a call on a base field of the receiver;
// a local variable bound to one; the result of a method call or a field of one (when of wrappable
// type); a parameter of a function literal handed, directly or through a local variable bound
// once, to a call on a base field. Using a base value as the receiver of a call or the operand
// of a selector is not an escape (identity and iteration: Next(), FeatureID()); binding it to a
// local variable makes that variable a base value.
func init() {
	register(&Rule{
		Name:  "OVERLAY-WRAP",
		IR:    "ast",
		Props: []string{"C12"},
		Floor: 20,
		Doc: "in a struct that keeps a table of plain-tag modifications next to the world (or iterator) it reads from, a feature, segment or iterator read from the base leaves a method only through the table's wrapper for its type, " +
			"and only values read from the base are handed to those wrappers",
		Run: runOverlayWrap,
	})
}

func runOverlayWrap(c *Ctx) []Obligation {
	var out []Obligation
	for _, p := range c.SortedPkgs() {
		info := p.TypesInfo
		// layers and their wrappers
		type layer struct {
			wrappers  map[*types.Func]bool
			wrappable []types.Type
		}
		layers := map[*types.Named]*layer{}
		scope := p.Types.Scope()
		for _, name := range scope.Names() {
			tn, ok := scope.Lookup(name).(*types.TypeName)
			if !ok {
				continue
			}
			named, ok := tn.Type().(*types.Named)
			if !ok {
				continue
			}
			l := &layer{wrappers: map[*types.Func]bool{}}
			for i := 0; i < named.NumMethods(); i++ {
				m := named.Method(i)
				sig := m.Type().(*types.Signature)
				if sig.Params().Len() == 1 && sig.Results().Len() == 1 && !sig.Variadic() &&
					types.Identical(sig.Params().At(0).Type(), sig.Results().At(0).Type()) {
					switch sig.Params().At(0).Type().Underlying().(type) {
					case *types.Interface, *types.Struct:
						l.wrappers[m] = true
						l.wrappable = append(l.wrappable, sig.Params().At(0).Type())
					}
				}
			}
			if len(l.wrappers) >= 3 {
				layers[named] = l
			}
		}
		if len(layers) == 0 {
			continue
		}
		// holders
		type holder struct {
			l      *layer
			lfield *types.Var
			bases  map[*types.Var]bool
		}
		holders := map[*types.Named]*holder{}
		for _, name := range scope.Names() {
			tn, ok := scope.Lookup(name).(*types.TypeName)
			if !ok {
				continue
			}
			named, ok := tn.Type().(*types.Named)
			if !ok {
				continue
			}
			st, ok := named.Underlying().(*types.Struct)
			if !ok {
				continue
			}
			h := &holder{bases: map[*types.Var]bool{}}
			for i := 0; i < st.NumFields(); i++ {
				f := st.Field(i)
				if ln := namedOf(f.Type()); ln != nil && layers[ln] != nil && h.l == nil {
					h.l, h.lfield = layers[ln], f
				} else if _, isI := f.Type().Underlying().(*types.Interface); isI && !f.Embedded() {
					h.bases[f] = true
				}
			}
			if h.l != nil && len(h.bases) > 0 {
				holders[named] = h
			}
		}
		for _, fd := range c.FuncDecls(p) {
			if fd.Recv == nil || len(fd.Recv.List) == 0 || len(fd.Recv.List[0].Names) == 0 || fd.Body == nil {
				continue
			}
			recvObj := info.Defs[fd.Recv.List[0].Names[0]]
			if recvObj == nil {
				continue
			}
			h := holders[namedOf(recvObj.Type())]
			if h == nil {
				continue
			}
			name := c.FuncName(p, fd)
			wrappable := func(t types.Type) bool {
				if t == nil {
					return false
				}
				for _, w := range h.l.wrappable {
					if types.Identical(w, t) {
						return true
					}
				}
				return false
			}
			// recv.<field> selectors
			fieldOf := func(e ast.Expr) *types.Var {
				sel, ok := ast.Unparen(e).(*ast.SelectorExpr)
				if !ok {
					return nil
				}
				id, ok := ast.Unparen(sel.X).(*ast.Ident)
				if !ok || info.Uses[id] != recvObj {
					return nil
				}
				s := info.Selections[sel]
				if s == nil {
					return nil
				}
				v, _ := s.Obj().(*types.Var)
				return v
			}
			baseCall := func(e ast.Expr) bool {
				call, ok := ast.Unparen(e).(*ast.CallExpr)
				if !ok {
					return false
				}
				sel, ok := ast.Unparen(call.Fun).(*ast.SelectorExpr)
				if !ok {
					return false
				}
				f := fieldOf(sel.X)
				return f != nil && h.bases[f]
			}
			wrapperCall := func(call *ast.CallExpr) bool {
				sel, ok := ast.Unparen(call.Fun).(*ast.SelectorExpr)
				if !ok {
					return false
				}
				fn, _ := info.Uses[sel.Sel].(*types.Func)
				if fn == nil || !h.l.wrappers[fn] {
					return false
				}
				return fieldOf(sel.X) == h.lfield
			}
			// function literals bound once to a local
			litOf := map[types.Object]*ast.FuncLit{}
			bound := map[types.Object]int{}
			ast.Inspect(fd.Body, func(n ast.Node) bool {
				if as, ok := n.(*ast.AssignStmt); ok && len(as.Lhs) == len(as.Rhs) {
					for i, l := range as.Lhs {
						if id, ok := l.(*ast.Ident); ok {
							o := info.Defs[id]
							if o == nil {
								o = info.Uses[id]
							}
							if o != nil {
								bound[o]++
								if fl, ok := as.Rhs[i].(*ast.FuncLit); ok {
									litOf[o] = fl
								}
							}
						}
					}
				}
				return true
			})
			// base variables, to a fixed point
			baseVar := map[types.Object]bool{}
			var isBase func(e ast.Expr) bool
			isBase = func(e ast.Expr) bool {
				e = ast.Unparen(e)
				if baseCall(e) {
					return true
				}
				switch x := e.(type) {
				case *ast.Ident:
					return baseVar[info.Uses[x]]
				case *ast.CallExpr:
					if sel, ok := ast.Unparen(x.Fun).(*ast.SelectorExpr); ok && isBase(sel.X) {
						if _, isM := info.Uses[sel.Sel].(*types.Func); isM {
							return true
						}
					}
				case *ast.SelectorExpr:
					if _, isV := info.Uses[x.Sel].(*types.Var); isV && isBase(x.X) {
						return true
					}
				}
				return false
			}
			for changed := true; changed; {
				changed = false
				mark := func(o types.Object) {
					if o != nil && !baseVar[o] {
						baseVar[o] = true
						changed = true
					}
				}
				ast.Inspect(fd.Body, func(n ast.Node) bool {
					switch x := n.(type) {
					case *ast.AssignStmt:
						if len(x.Lhs) == len(x.Rhs) {
							for i, l := range x.Lhs {
								if id, ok := l.(*ast.Ident); ok && isBase(x.Rhs[i]) {
									o := info.Defs[id]
									if o == nil {
										o = info.Uses[id]
									}
									mark(o)
								}
							}
						}
					case *ast.CallExpr:
						if baseCall(x) {
							for _, a := range x.Args {
								var fl *ast.FuncLit
								switch y := ast.Unparen(a).(type) {
								case *ast.FuncLit:
									fl = y
								case *ast.Ident:
									if o := info.Uses[y]; o != nil && bound[o] == 1 {
										fl = litOf[o]
									}
								}
								if fl != nil {
									for _, f := range fl.Type.Params.List {
										for _, id := range f.Names {
											if o := info.Defs[id]; o != nil && wrappable(o.Type()) {
												mark(o)
											}
										}
									}
								}
							}
						}
					}
					return true
				})
			}
			// walk with parents
			ord := map[string]int{}
			var stack []ast.Node
			ast.Inspect(fd.Body, func(n ast.Node) bool {
				if n == nil {
					stack = stack[:len(stack)-1]
					return true
				}
				stack = append(stack, n)
				e, isExpr := n.(ast.Expr)
				if !isExpr {
					return true
				}
				parent := func(k int) ast.Node {
					i := len(stack) - 1 - k
					for i >= 0 {
						if _, isP := stack[i].(*ast.ParenExpr); !isP {
							return stack[i]
						}
						i--
					}
					return nil
				}
				// #in: arguments of wrappers
				if call, ok := e.(*ast.CallExpr); ok && wrapperCall(call) && len(call.Args) == 1 {
					ord["in"]++
					ob := Obligation{Key: fmt.Sprintf("%s#in%d", name, ord["in"]), Pos: c.Position(call.Pos()), Status: OK,
						Detail: fmt.Sprintf("%s wraps %s, which was read from the base", srcText(c.Fset, call.Fun), srcText(c.Fset, call.Args[0]))}
					if !isBase(call.Args[0]) {
						ob.Status = Violation
						ob.Detail = fmt.Sprintf("%s is applied to %s, which was not read from a base field of the receiver (%s): the table holds modifications of base features only, and an entry left behind for a feature since copied to the overlay is applied on top of the copy",
							srcText(c.Fset, call.Fun), srcText(c.Fset, call.Args[0]), baseNames(h.bases))
					}
					out = append(out, ob)
				}
				// #out: uses of base values of wrappable type
				if !isBase(e) || !wrappable(info.TypeOf(e)) {
					return true
				}
				if id, ok := e.(*ast.Ident); ok && info.Defs[id] != nil {
					return true
				}
				par := parent(1)
				escape := ""
				switch px := par.(type) {
				case *ast.SelectorExpr:
					if ast.Unparen(px.X) == ast.Unparen(e) {
						return true
					}
				case *ast.CallExpr:
					if ast.Unparen(px.Fun) == ast.Unparen(e) {
						return true
					}
					if wrapperCall(px) {
						ord["out"]++
						out = append(out, Obligation{Key: fmt.Sprintf("%s#out%d", name, ord["out"]), Pos: c.Position(e.Pos()), Status: OK,
							Detail: fmt.Sprintf("%s (read from the base) goes through %s", srcText(c.Fset, e), srcText(c.Fset, px.Fun))})
						return true
					}
					escape = "is passed to " + srcText(c.Fset, px.Fun)
				case *ast.AssignStmt:
					for i, r := range px.Rhs {
						if ast.Unparen(r) == ast.Unparen(e) && len(px.Lhs) == len(px.Rhs) {
							if _, isId := px.Lhs[i].(*ast.Ident); isId {
								return true // the variable is a base value now
							}
							escape = "is stored in " + srcText(c.Fset, px.Lhs[i])
						}
					}
					if escape == "" {
						return true
					}
				case *ast.ReturnStmt:
					escape = "is returned"
				case *ast.CompositeLit, *ast.KeyValueExpr:
					escape = "is stored in a composite value"
				case *ast.TypeAssertExpr:
					escape = ""
					return true
				case *ast.BinaryExpr:
					return true // comparison
				default:
					return true
				}
				ord["out"]++
				out = append(out, Obligation{Key: fmt.Sprintf("%s#out%d", name, ord["out"]), Pos: c.Position(e.Pos()), Status: Violation,
					Detail: fmt.Sprintf("%s (a %s read from the base) %s without going through a wrapper of %s: readers see the base's tags, not the plain-tag edits recorded in this world",
						srcText(c.Fset, e), types.TypeString(info.TypeOf(e), types.RelativeTo(p.Types)), escape, h.lfield.Name())})
				return true
			})
		}
	}
	return out
}

func baseNames(m map[*types.Var]bool) string {
	var ns []string
	for v := range m {
		ns = append(ns, v.Name())
	}
	sort.Strings(ns)
	return strings.Join(ns, ", ")
}
