package main

import (
	"fmt"
	"go/ast"
	"go/types"
	"strings"
)

// TOPO-KEY (C18): a change file must list every feature before the features that refer to it (a
// path after its points, an area after its paths): the importer applies the file in order and
// rejects a feature whose references are missing. The exporter obtains that order by sorting on
// the number of features that refer to a feature *transitively* — if B refers to A, everything
// that reaches B also reaches A, so A's count is strictly larger and A sorts first. The number of
// *direct* referrers has no such property (a point used by one path that bounds two areas has one
// direct referrer, the path has two), so a key read straight from the referrers map orders some
// three-level chains the wrong way round.
//
// Slots (by shape, package ingest): every sort.Slice / sort.SliceStable call that is control
// dependent on the FeedReferencesFirst field of the feature-enumeration options. The key
// expressions are the operands of the comparison the comparator returns; a key that reads a local
// map is traced to the stores that fill that map in the same function. Obligation: every key is
// len(…) of (or the value of) a call of a method of the reference index that reaches a recursive
// function (the transitive collector RECURSION-GUARD decides); a key that indexes the reference
// index map itself is a violation.
func init() {
	register(&Rule{
		Name:  "TOPO-KEY",
		IR:    "ast",
		Props: []string{"C18"},
		Floor: 1,
		Doc:   "where features are sorted so that referenced features come first (under FeedReferencesFirst), the sort key is the size of the transitive referrer set (obtained through the recursive collector of the reference index), not the size of the direct map entry",
		Run:   runTopoKey,
	})
}

func runTopoKey(c *Ctx) []Obligation {
	var out []Obligation
	p := c.Pkg("ingest")
	if p == nil {
		return out
	}
	info := p.TypesInfo
	// functions of the package that are (or reach, statically, within 3 calls) a self-recursive function
	recursive := map[*types.Func]bool{}
	calls := map[*types.Func][]*types.Func{}
	for _, fd := range c.FuncDecls(p) {
		obj, _ := info.Defs[fd.Name].(*types.Func)
		if obj == nil {
			continue
		}
		ast.Inspect(fd.Body, func(n ast.Node) bool {
			if call, ok := n.(*ast.CallExpr); ok {
				if g := calleeFunc(info, call); g != nil {
					calls[obj] = append(calls[obj], g.Origin())
					if g.Origin() == obj {
						recursive[obj] = true
					}
				}
			}
			return true
		})
	}
	var reaches func(f *types.Func, depth int) bool
	reaches = func(f *types.Func, depth int) bool {
		if recursive[f] {
			return true
		}
		if depth == 0 {
			return false
		}
		for _, g := range calls[f] {
			if reaches(g, depth-1) {
				return true
			}
		}
		return false
	}
	for _, fd := range c.FuncDecls(p) {
		name := c.FuncName(p, fd)
		ord := 0
		ast.Inspect(fd.Body, func(n ast.Node) bool {
			is, ok := n.(*ast.IfStmt)
			if !ok || !strings.Contains(nodeText(c.Fset, is.Cond), "FeedReferencesFirst") {
				return true
			}
			ast.Inspect(is.Body, func(m ast.Node) bool {
				call, ok := m.(*ast.CallExpr)
				if !ok || len(call.Args) != 2 {
					return true
				}
				fn := calleeFunc(info, call)
				if fn == nil || fn.Pkg() == nil || fn.Pkg().Path() != "sort" || !strings.HasPrefix(fn.Name(), "Slice") {
					return true
				}
				cmp, ok := ast.Unparen(call.Args[1]).(*ast.FuncLit)
				if !ok {
					return true
				}
				ord++
				ob := Obligation{Key: fmt.Sprintf("%s#%d", name, ord), Pos: c.Position(call.Pos()), Status: OK}
				// key expressions: operands of the returned comparison
				var keys []ast.Expr
				ast.Inspect(cmp.Body, func(k ast.Node) bool {
					if r, ok := k.(*ast.ReturnStmt); ok && len(r.Results) == 1 {
						if be, ok := ast.Unparen(r.Results[0]).(*ast.BinaryExpr); ok {
							keys = append(keys, be.X, be.Y)
						}
					}
					return true
				})
				var verdicts, bad []string
				judge := func(e ast.Expr) {
					// strip len(...)
					e = ast.Unparen(e)
					if lc, ok := e.(*ast.CallExpr); ok && isBuiltin(info, lc, "len") && len(lc.Args) == 1 {
						e = ast.Unparen(lc.Args[0])
					}
					switch x := e.(type) {
					case *ast.CallExpr:
						if g := calleeFunc(info, x); g != nil && reaches(g.Origin(), 3) {
							verdicts = append(verdicts, fmt.Sprintf("%s goes through the recursive collector", nodeText(c.Fset, x)))
							return
						}
						bad = append(bad, fmt.Sprintf("%s does not reach a recursive collector: it is not a transitive count", nodeText(c.Fset, x)))
					case *ast.IndexExpr:
						// the reference index itself (a map from feature ID to references), possibly through *r
						base := ast.Unparen(x.X)
						if st, ok := base.(*ast.StarExpr); ok {
							base = ast.Unparen(st.X)
						}
						if nt := namedOf(info.TypeOf(base)); nt != nil && strings.Contains(nt.Obj().Name(), "References") {
							bad = append(bad, fmt.Sprintf("%s reads the direct referrers of a feature from the reference index: a feature with few direct but many transitive referrers sorts after the features that depend on it", nodeText(c.Fset, x)))
							return
						}
						verdicts = append(verdicts, "")
					default:
						bad = append(bad, fmt.Sprintf("key %s was not understood", nodeText(c.Fset, e)))
					}
				}
				for _, k := range keys {
					ke := ast.Unparen(k)
					if ix, ok := ke.(*ast.IndexExpr); ok {
						// a local map: trace to its stores in this function
						if id, ok := ast.Unparen(ix.X).(*ast.Ident); ok {
							if v, ok := info.Uses[id].(*types.Var); ok && !v.IsField() && v.Pos() > fd.Pos() && v.Pos() < fd.End() {
								stored := false
								ast.Inspect(fd.Body, func(s ast.Node) bool {
									as, ok := s.(*ast.AssignStmt)
									if !ok || len(as.Lhs) != len(as.Rhs) {
										return true
									}
									for i, l := range as.Lhs {
										if lix, ok := ast.Unparen(l).(*ast.IndexExpr); ok {
											if lid, ok := ast.Unparen(lix.X).(*ast.Ident); ok && info.Uses[lid] == types.Object(v) {
												stored = true
												judge(as.Rhs[i])
											}
										}
									}
									return true
								})
								if !stored {
									bad = append(bad, fmt.Sprintf("the key map %s is never filled in %s", id.Name, name))
								}
								continue
							}
						}
					}
					judge(k)
				}
				switch {
				case len(keys) == 0:
					ob.Status, ob.Detail = Undecided, "the comparator does not return a comparison of two keys"
				case len(bad) > 0:
					ob.Status, ob.Detail = Violation, strings.Join(bad, "; ")
				default:
					ob.Detail = fmt.Sprintf("the order that puts referenced features first is keyed on a transitive referrer count (%d key expression(s) checked)", len(keys))
				}
				out = append(out, ob)
				return true
			})
			return true
		})
	}
	return out
}
