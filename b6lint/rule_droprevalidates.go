package main

import (
	"fmt"
	"go/ast"
	"go/types"
)

// DROP-REVALIDATES (C37): validity is relational — an area is valid while the closed paths it
// refers to exist. A build that validates every feature once and then deletes the broken ones can
// delete a path after the area over it has been found valid; the area stays, with a reference to
// nothing (reading its polygon panics). Dropping has to be followed by validating again, until a
// pass drops nothing.
//
// Subjects, by shape (package ingest): functions that call the feature validator (a module
// function whose name starts with Validate and that takes a container to resolve references in)
// and delete from a map of features once per element of a list (the broken features: the key of
// the delete comes from the variable of an enclosing range loop). Obligation: the delete lies in a `for` statement without a
// range clause (a loop that runs until its body says stop, not once per element of a fixed list)
// whose body also contains the validation — directly, through a function literal bound in the
// function, or through the call that feeds the validating goroutines.
func init() {
	register(&Rule{
		Name:  "DROP-REVALIDATES",
		IR:    "ast",
		Props: []string{"C37"},
		Floor: 1,
		Doc:   "a build that deletes the features its validation found broken validates again afterwards, in a loop that ends when a pass drops nothing: dropping a path invalidates the areas over it",
		Run:   runDropRevalidates,
	})
}

func runDropRevalidates(c *Ctx) []Obligation {
	var out []Obligation
	p := c.Pkg("ingest")
	if p == nil {
		return out
	}
	info := p.TypesInfo
	isValidator := func(call *ast.CallExpr) bool {
		f := calleeFunc(info, call)
		return f != nil && f.Pkg() == p.Types && len(f.Name()) > 8 && f.Name()[:8] == "Validate" && f.Type().(*types.Signature).Params().Len() >= 2
	}
	for _, fd := range c.FuncDecls(p) {
		if fd.Body == nil {
			continue
		}
		// function literals bound to locals that validate; channels they read are fed inside the loop
		validating := map[types.Object]bool{}
		validates := false
		ast.Inspect(fd.Body, func(n ast.Node) bool {
			if as, ok := n.(*ast.AssignStmt); ok && len(as.Lhs) == len(as.Rhs) {
				for i, r := range as.Rhs {
					if fl, ok := r.(*ast.FuncLit); ok {
						has := false
						ast.Inspect(fl.Body, func(m ast.Node) bool {
							if call, ok := m.(*ast.CallExpr); ok && isValidator(call) {
								has = true
							}
							return true
						})
						if id, ok := as.Lhs[i].(*ast.Ident); ok && has {
							validating[info.Defs[id]] = true
							validates = true
						}
					}
				}
			}
			if call, ok := n.(*ast.CallExpr); ok && isValidator(call) {
				validates = true
			}
			return true
		})
		if !validates {
			continue
		}
		name := c.FuncName(p, fd)
		ord := 0
		ast.Inspect(fd.Body, func(n ast.Node) bool {
			call, ok := n.(*ast.CallExpr)
			if !ok || !isBuiltin(info, call, "delete") || len(call.Args) != 2 {
				return true
			}
			mt, ok := info.TypeOf(call.Args[0]).Underlying().(*types.Map)
			if !ok {
				return true
			}
			if en := namedOf(mt.Elem()); en == nil || en.Obj().Name() != "Feature" {
				if _, isIface := mt.Elem().Underlying().(*types.Interface); !isIface {
					return true
				}
			}
			// the key comes from the variable of an enclosing range loop: one delete per broken feature
			perBroken := false
			for _, anc := range enclosing(fd.Body, call) {
				if rs, ok := anc.(*ast.RangeStmt); ok {
					for _, e := range []ast.Expr{rs.Key, rs.Value} {
						if id, ok := e.(*ast.Ident); ok && info.Defs[id] != nil {
							v := info.Defs[id]
							ast.Inspect(call.Args[1], func(k ast.Node) bool {
								if x, ok := k.(*ast.Ident); ok && info.Uses[x] == v {
									perBroken = true
								}
								return true
							})
						}
					}
				}
			}
			if !perBroken {
				return true
			}
			ord++
			ob := Obligation{Key: fmt.Sprintf("%s#%d", name, ord), Pos: c.Position(call.Pos()), Status: Violation,
				Detail: fmt.Sprintf("%s deletes broken features and does not validate again: a feature that was valid only while a deleted one existed (an area over a dropped path) stays in the world", srcText(c.Fset, call))}
			for _, anc := range enclosing(fd.Body, call) {
				fs, ok := anc.(*ast.ForStmt)
				if !ok {
					continue
				}
				again := false
				ast.Inspect(fs.Body, func(m ast.Node) bool {
					switch x := m.(type) {
					case *ast.CallExpr:
						if isValidator(x) {
							again = true
						}
						if id, ok := ast.Unparen(x.Fun).(*ast.Ident); ok && validating[info.Uses[id]] {
							again = true
						}
					case *ast.GoStmt:
						if id, ok := ast.Unparen(x.Call.Fun).(*ast.Ident); ok && validating[info.Uses[id]] {
							again = true
						}
					}
					return true
				})
				if again {
					ob.Status = OK
					ob.Detail = fmt.Sprintf("%s lies in a loop (at %s) that validates again after dropping", srcText(c.Fset, call), c.Position(fs.Pos()))
				}
			}
			out = append(out, ob)
			return true
		})
	}
	return out
}
