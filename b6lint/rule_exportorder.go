package main

import (
	"fmt"
	"go/ast"
	"go/types"
)

// EXPORT-ORDER (C18): a change file lists two kinds of records: tag records (the plain-tag edits the
// overlay keeps in its side table for features that still live in the base) and whole-feature
// records (features copied into the overlay, with their final tags). When a searchable edit copies
// a base feature into the overlay, the entry in the side table stays behind; it is superseded, not
// deleted. A change file reproduces the edited world only if the importer meets the stale tag
// record first and the whole feature afterwards — the whole feature has the last word. The exporter
// therefore has to enumerate the modified tags before the modified features.
//
// Subjects, by type: every function that calls both enumeration methods of the ingest.MutableWorld
// interface whose callbacks take a tag modification and a feature respectively (found by the
// callback's parameter type: ingest.ModifiedTag against b6.Feature). Obligation (control-flow
// graph): the tag enumeration reaches the feature enumeration and not the other way round.
func init() {
	register(&Rule{
		Name:  "EXPORT-ORDER",
		IR:    "cfg",
		Props: []string{"C18"},
		Floor: 1,
		Doc:   "a function that writes out both the plain-tag modifications and the modified features of a mutable world writes the tag modifications first: whole-feature records carry the final tags and must have the last word when the file is applied",
		Run:   runExportOrder,
	})
}

func runExportOrder(c *Ctx) []Obligation {
	var out []Obligation
	ip := c.Pkg("ingest")
	if ip == nil {
		return out
	}
	tn, _ := ip.Types.Scope().Lookup("MutableWorld").(*types.TypeName)
	if tn == nil {
		return out
	}
	iface, _ := tn.Type().Underlying().(*types.Interface)
	if iface == nil {
		return out
	}
	// the two enumerations, by the parameter type of their callback
	var tagsM, featuresM *types.Func
	for i := 0; i < iface.NumMethods(); i++ {
		m := iface.Method(i)
		sig := m.Type().(*types.Signature)
		if sig.Params().Len() < 1 {
			continue
		}
		cb, ok := sig.Params().At(0).Type().Underlying().(*types.Signature)
		if !ok || cb.Params().Len() < 1 {
			continue
		}
		if n := namedOf(cb.Params().At(0).Type()); n != nil {
			switch {
			case n.Obj().Name() == "ModifiedTag":
				tagsM = m
			case n.Obj().Name() == "Feature" && n.Obj().Pkg().Path() == ModulePath && m.Pkg() == ip.Types:
				// declared by MutableWorld itself, not inherited from b6.World
				featuresM = m
			}
		}
	}
	if tagsM == nil || featuresM == nil {
		return out
	}
	for _, p := range c.SortedPkgs() {
		info := p.TypesInfo
		for _, fd := range c.FuncDecls(p) {
			if fd.Body == nil {
				continue
			}
			var tagsCall, featuresCall *ast.CallExpr
			ast.Inspect(fd.Body, func(n ast.Node) bool {
				if call, ok := n.(*ast.CallExpr); ok {
					switch calleeFunc(info, call) {
					case tagsM:
						tagsCall = call
					case featuresM:
						featuresCall = call
					}
				}
				return true
			})
			if tagsCall == nil || featuresCall == nil {
				continue
			}
			ob := Obligation{Key: c.FuncName(p, fd), Pos: c.Position(fd.Pos()), Status: OK}
			g := newCFG(info, fd.Body)
			tl, ok1 := findNode(g, tagsCall)
			fl, ok2 := findNode(g, featuresCall)
			switch {
			case !ok1 || !ok2:
				ob.Status = Undecided
				ob.Detail = "the enumeration calls were not found in the control-flow graph"
			case cfgReaches(g, fl, tl) || !cfgReaches(g, tl, fl):
				ob.Status = Violation
				ob.Pos = c.Position(featuresCall.Pos())
				ob.Detail = fmt.Sprintf("%s is reached before %s: the tag records are applied after the whole features, so a tag modification that a later searchable edit superseded (it stays in the side table) is applied on top of the feature's final tags", srcText(c.Fset, featuresCall.Fun), srcText(c.Fset, tagsCall.Fun))
			default:
				ob.Detail = fmt.Sprintf("%s precedes %s on every path", srcText(c.Fset, tagsCall.Fun), srcText(c.Fset, featuresCall.Fun))
			}
			out = append(out, ob)
		}
	}
	return out
}
