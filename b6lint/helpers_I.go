package main

// Helpers shared by the group-I rules (APPLY-ERR, CANARY, LOCK-TYPESTATE, MUTATOR-REACH).
// Everything is resolved through types: the interfaces ingest.Change, ingest.MutableWorld and
// ingest.Worlds are looked up in package ingest, and calls are recognised by the method object
// they resolve to (interface method or a method of a type that implements the interface).

import (
	"fmt"
	"go/ast"
	"go/token"
	"go/types"
	"sort"

	"golang.org/x/tools/go/ssa"
)

// iTypes holds the anchor types of the group.
type iTypes struct {
	change      *types.Interface // ingest.Change
	changeApply *types.Func      // its only method
	mworld      *types.Interface // ingest.MutableWorld
	mutators    map[string]bool  // names of the mutating methods of MutableWorld
	worlds      *types.Interface // ingest.Worlds
	findWorld   *types.Func      // the Worlds method that returns a MutableWorld
}

func iIface(c *Ctx, rel, name string) *types.Interface {
	p := c.Pkg(rel)
	if p == nil {
		return nil
	}
	tn, _ := p.Types.Scope().Lookup(name).(*types.TypeName)
	if tn == nil {
		return nil
	}
	it, _ := tn.Type().Underlying().(*types.Interface)
	return it
}

// iLoadTypes resolves the anchors; an error makes the calling rule report an undecided
// obligation (which fails) instead of passing vacuously.
func iLoadTypes(c *Ctx) (*iTypes, error) {
	t := &iTypes{mutators: map[string]bool{}}
	if t.change = iIface(c, "ingest", "Change"); t.change == nil || t.change.NumMethods() != 1 {
		return nil, fmt.Errorf("interface ingest.Change with exactly one method not found")
	}
	t.changeApply = t.change.Method(0)
	if t.mworld = iIface(c, "ingest", "MutableWorld"); t.mworld == nil {
		return nil, fmt.Errorf("interface ingest.MutableWorld not found")
	}
	// A mutator is a method MutableWorld declares itself (not one inherited from b6.World) that
	// returns only an error and takes no function parameter (the Each… enumerators take one).
	errT := types.Universe.Lookup("error").Type()
	for i := 0; i < t.mworld.NumExplicitMethods(); i++ {
		m := t.mworld.ExplicitMethod(i)
		sig := m.Type().(*types.Signature)
		if sig.Results().Len() != 1 || !types.Identical(sig.Results().At(0).Type(), errT) {
			continue
		}
		takesFunc := false
		for j := 0; j < sig.Params().Len(); j++ {
			if _, ok := sig.Params().At(j).Type().Underlying().(*types.Signature); ok {
				takesFunc = true
			}
		}
		if !takesFunc {
			t.mutators[m.Name()] = true
		}
	}
	if len(t.mutators) == 0 {
		return nil, fmt.Errorf("ingest.MutableWorld declares no mutating method")
	}
	if t.worlds = iIface(c, "ingest", "Worlds"); t.worlds == nil {
		return nil, fmt.Errorf("interface ingest.Worlds not found")
	}
	for i := 0; i < t.worlds.NumMethods(); i++ {
		m := t.worlds.Method(i)
		sig := m.Type().(*types.Signature)
		if sig.Results().Len() == 1 && types.Identical(sig.Results().At(0).Type().Underlying(), t.mworld) {
			t.findWorld = m
		}
	}
	if t.findWorld == nil {
		return nil, fmt.Errorf("ingest.Worlds has no method returning a MutableWorld")
	}
	return t, nil
}

func iAnchorFailure(err error) []Obligation {
	return []Obligation{{Key: "anchors", Pos: "-", Status: Undecided, Detail: "anchor types could not be resolved: " + err.Error()}}
}

// iImplements: T or *T implements the interface.
func iImplements(T types.Type, it *types.Interface) bool {
	if T == nil || it == nil {
		return false
	}
	if types.Implements(T, it) {
		return true
	}
	if _, isPtr := T.(*types.Pointer); !isPtr {
		if _, isIface := T.Underlying().(*types.Interface); !isIface {
			return types.Implements(types.NewPointer(T), it)
		}
	}
	return false
}

func iRecvType(f *types.Func) types.Type {
	if f == nil {
		return nil
	}
	sig, _ := f.Type().(*types.Signature)
	if sig == nil || sig.Recv() == nil {
		return nil
	}
	return sig.Recv().Type()
}

// iMethodOf: f is the interface method m itself, or the method of that name on a concrete type
// that implements the interface.
func iMethodOf(f *types.Func, it *types.Interface, name string) bool {
	if f == nil || f.Name() != name {
		return false
	}
	rt := iRecvType(f)
	if rt == nil {
		return false
	}
	if ri, ok := rt.Underlying().(*types.Interface); ok {
		// an interface method: the interface must be (or embed) `it`
		return types.Identical(ri, it) || types.Implements(rt, it)
	}
	return iImplements(rt, it)
}

// iIsApply: ingest.Change.Apply or one of its implementations.
func (t *iTypes) iIsApply(f *types.Func) bool {
	return iMethodOf(f, t.change, t.changeApply.Name())
}

// iIsApplyImpl: a concrete implementation of Change.Apply.
func (t *iTypes) iIsApplyImpl(f *types.Func) bool {
	if !t.iIsApply(f) {
		return false
	}
	_, isIface := iRecvType(f).Underlying().(*types.Interface)
	return !isIface
}

// iIsMutator: AddFeature/AddTag/RemoveTag of ingest.MutableWorld or of an implementing type.
func (t *iTypes) iIsMutator(f *types.Func) bool {
	if f == nil || !t.mutators[f.Name()] {
		return false
	}
	return iMethodOf(f, t.mworld, f.Name())
}

// iIsFindWorld: ingest.Worlds.FindOrCreateWorld or an implementation.
func (t *iTypes) iIsFindWorld(f *types.Func) bool {
	return iMethodOf(f, t.worlds, t.findWorld.Name())
}

// iCalleeOfCommon returns the method/function object an SSA call resolves to through types
// (interface method for invoke-mode calls, the static callee otherwise).
func iCalleeOfCommon(cc *ssa.CallCommon) *types.Func {
	if cc.IsInvoke() {
		return cc.Method
	}
	if fn := cc.StaticCallee(); fn != nil {
		if obj, ok := fn.Object().(*types.Func); ok {
			return obj
		}
	}
	return nil
}

// iFuncTree returns fn and all function literals nested in it.
func iFuncTree(fn *ssa.Function) []*ssa.Function {
	if fn == nil {
		return nil
	}
	out := []*ssa.Function{fn}
	for _, a := range fn.AnonFuncs {
		out = append(out, iFuncTree(a)...)
	}
	return out
}

// iOutermost returns the declared function a literal is nested in.
func iOutermost(fn *ssa.Function) *ssa.Function {
	for fn.Parent() != nil {
		fn = fn.Parent()
	}
	return fn
}

// iCallInstr is a call instruction with its CallCommon.
type iCallInstr struct {
	instr ssa.CallInstruction
	fn    *ssa.Function
}

func iCalls(fn *ssa.Function) []iCallInstr {
	var out []iCallInstr
	for _, b := range fn.Blocks {
		for _, in := range b.Instrs {
			if ci, ok := in.(ssa.CallInstruction); ok {
				out = append(out, iCallInstr{ci, fn})
			}
		}
	}
	return out
}

// iCallIndex maps the position of a call's opening parenthesis to the SSA instruction, for the
// declared function and the literals inside it.
func iCallIndex(fn *ssa.Function) map[token.Pos]iCallInstr {
	m := map[token.Pos]iCallInstr{}
	for _, f := range iFuncTree(fn) {
		for _, ci := range iCalls(f) {
			if p := ci.instr.Pos(); p.IsValid() {
				m[p] = ci
			}
		}
	}
	return m
}

// ---------------------------------------------------------------------------------------
// World classification (SSA value → where the world comes from).

type iWorldKind int

const (
	iWUnknown iWorldKind = iota
	iWShared             // result of Worlds.FindOrCreateWorld: shared between requests
	iWPrivate            // freshly allocated in this call tree (new T / a constructor that returns new T)
	iWParam              // a parameter of the enclosing declared function
	iWSelf               // the method receiver
)

type iWorldClass struct {
	kind  iWorldKind
	param int    // for iWParam: index among the declared parameters (receiver excluded)
	why   string // how it was decided
}

func (w iWorldClass) String() string {
	switch w.kind {
	case iWShared:
		return "shared world (" + w.why + ")"
	case iWPrivate:
		return "private world (" + w.why + ")"
	case iWParam:
		return fmt.Sprintf("world parameter #%d (%s)", w.param, w.why)
	case iWSelf:
		return "the receiver"
	}
	return "world of unknown origin (" + w.why + ")"
}

type iClassifier struct {
	c       *Ctx
	t       *iTypes
	fresh   map[string]int // fn+idx → 0 unknown/in progress, 1 fresh, 2 not fresh
	closur  map[*ssa.Function][]*ssa.MakeClosure
	fstores map[*types.Var][]ssa.Value
}

func iNewClassifier(c *Ctx, t *iTypes) *iClassifier {
	c.BuildSSA()
	return &iClassifier{c: c, t: t, fresh: map[string]int{}, closur: map[*ssa.Function][]*ssa.MakeClosure{}}
}

// makeClosures returns the MakeClosure instructions that create lit (they are in its parent).
func (k *iClassifier) makeClosures(lit *ssa.Function) []*ssa.MakeClosure {
	if mcs, ok := k.closur[lit]; ok {
		return mcs
	}
	var mcs []*ssa.MakeClosure
	if p := lit.Parent(); p != nil {
		for _, b := range p.Blocks {
			for _, in := range b.Instrs {
				if mc, ok := in.(*ssa.MakeClosure); ok && mc.Fn == ssa.Value(lit) {
					mcs = append(mcs, mc)
				}
			}
		}
	}
	k.closur[lit] = mcs
	return mcs
}

func iJoin(a, b iWorldClass) iWorldClass {
	if a.kind == iWShared {
		return a
	}
	if b.kind == iWShared {
		return b
	}
	if a.kind == iWUnknown {
		return a
	}
	if b.kind == iWUnknown {
		return b
	}
	if a.kind == b.kind && (a.kind != iWParam || a.param == b.param) {
		return a
	}
	// private joined with parameter/receiver: the obligation of the parameter remains
	if a.kind == iWPrivate {
		return b
	}
	if b.kind == iWPrivate {
		return a
	}
	return iWorldClass{kind: iWUnknown, why: "different parameters on different paths"}
}

func (k *iClassifier) classify(v ssa.Value) iWorldClass {
	return k.classify1(v, map[ssa.Value]bool{})
}

func (k *iClassifier) classify1(v ssa.Value, seen map[ssa.Value]bool) iWorldClass {
	if seen[v] {
		return iWorldClass{kind: iWPrivate, why: "cycle"} // neutral element of the join
	}
	seen[v] = true
	switch x := v.(type) {
	case *ssa.Call:
		return k.classifyCall(x.Common(), 0)
	case *ssa.Extract:
		switch tup := x.Tuple.(type) {
		case *ssa.TypeAssert:
			return k.classify1(tup.X, seen)
		case *ssa.Call:
			return k.classifyCall(tup.Common(), x.Index)
		}
		return iWorldClass{kind: iWUnknown, why: "component of a tuple"}
	case *ssa.Alloc:
		return iWorldClass{kind: iWPrivate, why: "allocated at " + k.c.Position(x.Pos())}
	case *ssa.MakeInterface:
		return k.classify1(x.X, seen)
	case *ssa.ChangeInterface:
		return k.classify1(x.X, seen)
	case *ssa.ChangeType:
		return k.classify1(x.X, seen)
	case *ssa.TypeAssert:
		return k.classify1(x.X, seen)
	case *ssa.Phi:
		var r iWorldClass
		for i, e := range x.Edges {
			ce := k.classify1(e, seen)
			if i == 0 {
				r = ce
			} else {
				r = iJoin(r, ce)
			}
		}
		return r
	case *ssa.Const:
		if x.IsNil() {
			return iWorldClass{kind: iWPrivate, why: "nil"}
		}
	case *ssa.Parameter:
		fn := x.Parent()
		idx := -1
		for i, p := range fn.Params {
			if p == x {
				idx = i
			}
		}
		if fn.Parent() != nil {
			return iWorldClass{kind: iWUnknown, why: "parameter of a function literal"}
		}
		if fn.Signature.Recv() != nil {
			if idx == 0 {
				return iWorldClass{kind: iWSelf}
			}
			idx--
		}
		return iWorldClass{kind: iWParam, param: idx, why: "parameter " + x.Name() + " of " + fn.Name()}
	case *ssa.UnOp:
		if x.Op == token.MUL {
			return k.classifyLoad(x.X, seen)
		}
	}
	return iWorldClass{kind: iWUnknown, why: fmt.Sprintf("%T %s", v, v.Name())}
}

func (k *iClassifier) classifyCall(cc *ssa.CallCommon, idx int) iWorldClass {
	obj := iCalleeOfCommon(cc)
	if obj != nil && k.t.iIsFindWorld(obj) && idx == 0 {
		return iWorldClass{kind: iWShared, why: "result of " + obj.FullName()}
	}
	if fn := cc.StaticCallee(); fn != nil && len(fn.Blocks) > 0 {
		if k.returnsFresh(fn, idx) {
			return iWorldClass{kind: iWPrivate, why: "constructed by " + fn.String()}
		}
	}
	name := "a dynamic call"
	if obj != nil {
		name = obj.FullName()
	}
	return iWorldClass{kind: iWUnknown, why: "result of " + name}
}

// returnsFresh: every return of fn yields, at result idx, an object allocated in fn (or by a
// callee that returns a fresh object).
func (k *iClassifier) returnsFresh(fn *ssa.Function, idx int) bool {
	key := fmt.Sprintf("%s#%d", fn.String(), idx)
	switch k.fresh[key] {
	case 1:
		return true
	case 2:
		return false
	}
	k.fresh[key] = 2 // in progress: recursion is not fresh
	ok, n := true, 0
	for _, b := range fn.Blocks {
		for _, in := range b.Instrs {
			ret, isRet := in.(*ssa.Return)
			if !isRet || idx >= len(ret.Results) {
				continue
			}
			n++
			r := ret.Results[idx]
			if cst, isConst := r.(*ssa.Const); isConst && cst.IsNil() {
				continue // the error path of a constructor
			}
			if cl := k.classify(r); cl.kind != iWPrivate {
				ok = false
			}
		}
	}
	if ok && n > 0 {
		k.fresh[key] = 1
		return true
	}
	return false
}

// classifyLoad classifies the value read from a variable cell.
func (k *iClassifier) classifyLoad(addr ssa.Value, seen map[ssa.Value]bool) iWorldClass {
	switch a := addr.(type) {
	case *ssa.Alloc:
		return k.joinStores(a, seen)
	case *ssa.FreeVar:
		lit := a.Parent()
		idx := -1
		for i, fv := range lit.FreeVars {
			if fv == a {
				idx = i
			}
		}
		mcs := k.makeClosures(lit)
		if idx < 0 || len(mcs) == 0 {
			return iWorldClass{kind: iWUnknown, why: "captured variable " + a.Name() + " whose closure creation was not found"}
		}
		var r iWorldClass
		for i, mc := range mcs {
			ci := k.classifyLoad(mc.Bindings[idx], seen)
			if i == 0 {
				r = ci
			} else {
				r = iJoin(r, ci)
			}
		}
		return r
	case *ssa.FieldAddr:
		fv := iFieldVar(a.X.Type(), a.Field)
		if fv == nil {
			return iWorldClass{kind: iWUnknown, why: "read from a field"}
		}
		// field-based, object-insensitive: the join of everything the module stores into this field
		// ("may hold a shared world" if some store puts one there)
		vals := k.fieldStores()[fv]
		r := iWorldClass{kind: iWUnknown, why: "read from field " + fv.Name() + ", which the module never assigns"}
		for i, v := range vals {
			ci := k.classify1(v, seen)
			if ci.kind == iWParam || ci.kind == iWSelf {
				ci = iWorldClass{kind: iWUnknown, why: "read from field " + fv.Name() + ", assigned from a parameter"}
			}
			if i == 0 {
				r = ci
			} else {
				r = iJoin(r, ci)
			}
		}
		if r.kind == iWShared {
			r.why = "read from field " + fv.Name() + ", which may hold the " + r.why
		}
		return r
	case *ssa.Global:
		return iWorldClass{kind: iWUnknown, why: "read from package variable " + a.Name()}
	}
	return iWorldClass{kind: iWUnknown, why: fmt.Sprintf("read through %T", addr)}
}

func iFieldVar(t types.Type, idx int) *types.Var {
	if p, ok := t.Underlying().(*types.Pointer); ok {
		t = p.Elem()
	}
	if st, ok := t.Underlying().(*types.Struct); ok && idx < st.NumFields() {
		return st.Field(idx)
	}
	return nil
}

// fieldStores indexes, for every struct field, the values stored into it anywhere in the module.
func (k *iClassifier) fieldStores() map[*types.Var][]ssa.Value {
	if k.fstores != nil {
		return k.fstores
	}
	k.fstores = map[*types.Var][]ssa.Value{}
	for _, p := range k.c.SortedPkgs() {
		for _, fd := range k.c.FuncDecls(p) {
			obj, _ := p.TypesInfo.Defs[fd.Name].(*types.Func)
			if obj == nil {
				continue
			}
			for _, fn := range iFuncTree(k.c.SSAFunc(obj)) {
				for _, b := range fn.Blocks {
					for _, in := range b.Instrs {
						if st, ok := in.(*ssa.Store); ok {
							if fa, ok := st.Addr.(*ssa.FieldAddr); ok {
								if fv := iFieldVar(fa.X.Type(), fa.Field); fv != nil {
									k.fstores[fv] = append(k.fstores[fv], st.Val)
								}
							}
						}
					}
				}
			}
		}
		// package-level variable initialisers
		if sp := k.c.SSAPkgs[p.PkgPath]; sp != nil {
			if init := sp.Func("init"); init != nil {
				for _, fn := range iFuncTree(init) {
					for _, b := range fn.Blocks {
						for _, in := range b.Instrs {
							if st, ok := in.(*ssa.Store); ok {
								if fa, ok := st.Addr.(*ssa.FieldAddr); ok {
									if fv := iFieldVar(fa.X.Type(), fa.Field); fv != nil {
										k.fstores[fv] = append(k.fstores[fv], st.Val)
									}
								}
							}
						}
					}
				}
			}
		}
	}
	return k.fstores
}

// joinStores joins everything stored into a local variable cell, in the declaring function
// and in the literals that capture it.
func (k *iClassifier) joinStores(cell ssa.Value, seen map[ssa.Value]bool) iWorldClass {
	first := true
	var r iWorldClass
	add := func(c iWorldClass) {
		if first {
			r, first = c, false
		} else {
			r = iJoin(r, c)
		}
	}
	var visit func(addr ssa.Value)
	visit = func(addr ssa.Value) {
		refs := addr.Referrers()
		if refs == nil {
			return
		}
		for _, ref := range *refs {
			switch in := ref.(type) {
			case *ssa.Store:
				if in.Addr == addr {
					add(k.classify1(in.Val, seen))
				} else {
					add(iWorldClass{kind: iWUnknown, why: "address of the variable is stored"})
				}
			case *ssa.UnOp: // a load
			case *ssa.MakeClosure:
				lit, _ := in.Fn.(*ssa.Function)
				for i, b := range in.Bindings {
					if b == addr && lit != nil && i < len(lit.FreeVars) {
						visit(lit.FreeVars[i])
					}
				}
			case *ssa.DebugRef:
			default:
				add(iWorldClass{kind: iWUnknown, why: "address of the variable escapes"})
			}
		}
	}
	visit(cell)
	if first {
		return iWorldClass{kind: iWPrivate, why: "never assigned (nil)"}
	}
	return r
}

// ---------------------------------------------------------------------------------------

// iDeclName renders the declared function an SSA function (or literal) belongs to in the key
// format of the engine.
func iDeclName(c *Ctx, fn *ssa.Function) (string, bool) {
	top := iOutermost(fn)
	obj, _ := top.Object().(*types.Func)
	if obj == nil {
		return "", false
	}
	fd, p := c.Decl(obj)
	if fd == nil || p == nil {
		return "", false
	}
	return c.FuncName(p, fd), true
}

func iSortObligations(obs []Obligation) {
	sort.SliceStable(obs, func(i, j int) bool { return obs[i].Key < obs[j].Key })
}

// iShallowCalls lists the call expressions of a node in source order without entering
// function literals.
func iShallowCalls(n ast.Node) []*ast.CallExpr {
	var out []*ast.CallExpr
	if n == nil {
		return nil
	}
	ast.Inspect(n, func(x ast.Node) bool {
		if _, ok := x.(*ast.FuncLit); ok {
			return false
		}
		if call, ok := x.(*ast.CallExpr); ok {
			out = append(out, call)
		}
		return true
	})
	// evaluation order: arguments before the call itself → order by closing parenthesis
	sort.SliceStable(out, func(i, j int) bool { return out[i].Rparen < out[j].Rparen })
	return out
}
