package main

// Helpers shared by the group E rules (SNAPSHOT-FRESH, SELFREF, RAWBASE, RECURSION-GUARD,
// SHADOW-FILTER, OVERLAY-PRECEDENCE). All identifiers carry the prefix e/E.

import (
	"go/ast"
	"go/token"
	"go/types"

	"golang.org/x/tools/go/cfg"
	"golang.org/x/tools/go/packages"
	"golang.org/x/tools/go/ssa"
)

// eIfaces are the interfaces of the root package b6 the rules resolve types against.
type eIfaces struct {
	worldNamed   types.Type
	world        *types.Interface // b6.World
	featuresByID *types.Interface // b6.FeaturesByID
	taggable     *types.Interface // b6.Taggable
	feature      *types.Interface // b6.Feature
	featureNamed types.Type
	mutableWorld *types.Interface // ingest.MutableWorld (nil if absent)
}

func eLookupIface(p *packages.Package, name string) (types.Type, *types.Interface) {
	if p == nil {
		return nil, nil
	}
	tn, _ := p.Types.Scope().Lookup(name).(*types.TypeName)
	if tn == nil {
		return nil, nil
	}
	it, _ := tn.Type().Underlying().(*types.Interface)
	return tn.Type(), it
}

func eLoadIfaces(c *Ctx) *eIfaces {
	r := &eIfaces{}
	root := c.Pkg("")
	r.worldNamed, r.world = eLookupIface(root, "World")
	_, r.featuresByID = eLookupIface(root, "FeaturesByID")
	_, r.taggable = eLookupIface(root, "Taggable")
	r.featureNamed, r.feature = eLookupIface(root, "Feature")
	_, r.mutableWorld = eLookupIface(c.Pkg("ingest"), "MutableWorld")
	return r
}

func (i *eIfaces) ok() bool {
	return i.world != nil && i.featuresByID != nil && i.taggable != nil && i.feature != nil
}

// eWorld is a layered world type: a named struct whose pointer implements b6.World and that
// has a field `base` of type b6.World.
type eWorld struct {
	pkg     *packages.Package
	named   *types.Named
	st      *types.Struct
	base    *types.Var
	upper   []*types.Var // other fields whose type implements b6.FeaturesByID: the upper feature layer
	tags    *types.Var   // field whose type has a method WrapFeature(b6.Feature) b6.Feature, or nil
	mutable bool         // *T implements ingest.MutableWorld
}

func (w *eWorld) isUpper(v *types.Var) bool {
	for _, u := range w.upper {
		if u == v {
			return true
		}
	}
	return false
}

func (w *eWorld) upperNames() string {
	s := ""
	for i, u := range w.upper {
		if i > 0 {
			s += "/"
		}
		s += u.Name()
	}
	return s
}

// eHasWrapFeature: the type has a method WrapFeature(b6.Feature) b6.Feature (the tag-modification sanitiser).
func eHasWrapFeature(t types.Type, ifs *eIfaces) *types.Func {
	ms := types.NewMethodSet(t)
	for i := 0; i < ms.Len(); i++ {
		f, ok := ms.At(i).Obj().(*types.Func)
		if !ok || f.Name() != "WrapFeature" {
			continue
		}
		sig := f.Type().(*types.Signature)
		if sig.Params().Len() == 1 && sig.Results().Len() == 1 &&
			types.Identical(sig.Params().At(0).Type(), ifs.featureNamed) && types.Identical(sig.Results().At(0).Type(), ifs.featureNamed) {
			return f
		}
	}
	return nil
}

// eWorldTypes enumerates layered world types in package and name order.
func eWorldTypes(c *Ctx, ifs *eIfaces) []*eWorld {
	var out []*eWorld
	for _, p := range c.SortedPkgs() {
		scope := p.Types.Scope()
		for _, name := range scope.Names() {
			tn, ok := scope.Lookup(name).(*types.TypeName)
			if !ok || tn.IsAlias() {
				continue
			}
			named, ok := tn.Type().(*types.Named)
			if !ok || named.TypeParams().Len() > 0 {
				continue
			}
			st, ok := named.Underlying().(*types.Struct)
			if !ok || !types.Implements(types.NewPointer(named), ifs.world) {
				continue
			}
			w := &eWorld{pkg: p, named: named, st: st}
			for i := 0; i < st.NumFields(); i++ {
				f := st.Field(i)
				if f.Name() == "base" && types.Identical(f.Type(), ifs.worldNamed) {
					w.base = f
				}
			}
			if w.base == nil {
				continue
			}
			for i := 0; i < st.NumFields(); i++ {
				f := st.Field(i)
				if f == w.base {
					continue
				}
				if types.Implements(f.Type(), ifs.featuresByID) {
					w.upper = append(w.upper, f)
				}
				if w.tags == nil && eHasWrapFeature(f.Type(), ifs) != nil {
					w.tags = f
				}
			}
			if ifs.mutableWorld != nil {
				w.mutable = types.Implements(types.NewPointer(named), ifs.mutableWorld)
			}
			out = append(out, w)
		}
	}
	return out
}

// eMethods returns the declared methods (with bodies, non generated) of a named type in source order.
func eMethods(c *Ctx, p *packages.Package, named *types.Named) []*ast.FuncDecl {
	var out []*ast.FuncDecl
	for _, fd := range c.FuncDecls(p) {
		if fd.Recv == nil || len(fd.Recv.List) == 0 {
			continue
		}
		obj, _ := p.TypesInfo.Defs[fd.Name].(*types.Func)
		if obj == nil {
			continue
		}
		sig := obj.Type().(*types.Signature)
		if sig.Recv() != nil && namedOf(sig.Recv().Type()) == named {
			out = append(out, fd)
		}
	}
	return out
}

// eRecvObj is the receiver variable of a method declaration (nil when unnamed).
func eRecvObj(info *types.Info, fd *ast.FuncDecl) types.Object {
	if fd.Recv == nil || len(fd.Recv.List) == 0 || len(fd.Recv.List[0].Names) == 0 {
		return nil
	}
	return info.Defs[fd.Recv.List[0].Names[0]]
}

// eStrip removes parentheses and explicit dereferences.
func eStrip(e ast.Expr) ast.Expr {
	for {
		switch x := e.(type) {
		case *ast.ParenExpr:
			e = x.X
		case *ast.StarExpr:
			e = x.X
		default:
			return e
		}
	}
}

// eFieldOf: e is (after parens/derefs) `obj.f`; returns the field f.
func eFieldOf(info *types.Info, e ast.Expr, obj types.Object) *types.Var {
	if obj == nil {
		return nil
	}
	sel, ok := eStrip(e).(*ast.SelectorExpr)
	if !ok {
		return nil
	}
	id, ok := eStrip(sel.X).(*ast.Ident)
	if !ok || info.ObjectOf(id) != obj {
		return nil
	}
	if s := info.Selections[sel]; s != nil && s.Kind() == types.FieldVal {
		v, _ := s.Obj().(*types.Var)
		return v
	}
	return nil
}

// eRootIdent follows selectors, index expressions, derefs, type assertions and method-call
// receivers down to the identifier the expression is rooted at.
func eRootIdent(e ast.Expr) *ast.Ident {
	for {
		switch x := e.(type) {
		case *ast.Ident:
			return x
		case *ast.ParenExpr:
			e = x.X
		case *ast.StarExpr:
			e = x.X
		case *ast.SelectorExpr:
			e = x.X
		case *ast.IndexExpr:
			e = x.X
		case *ast.SliceExpr:
			e = x.X
		case *ast.TypeAssertExpr:
			e = x.X
		case *ast.UnaryExpr:
			e = x.X
		case *ast.CallExpr:
			sel, ok := ast.Unparen(x.Fun).(*ast.SelectorExpr)
			if !ok {
				return nil
			}
			e = sel.X
		default:
			return nil
		}
	}
}

// eLocalDef describes the single definition of a local variable.
type eLocalDef struct {
	rhs   ast.Expr // the defining expression (shared by all results of a tuple assignment)
	index int      // position among the left-hand sides
	n     int      // number of left-hand sides
	stmt  ast.Node
}

// eSingleDef finds the only definition of a local variable inside root (`:=`, `var x = e`); it
// returns nil when the variable is assigned more than once or is not defined by an expression.
func eSingleDef(info *types.Info, root ast.Node, obj types.Object) *eLocalDef {
	if obj == nil {
		return nil
	}
	var def *eLocalDef
	writes := 0
	ast.Inspect(root, func(n ast.Node) bool {
		switch x := n.(type) {
		case *ast.AssignStmt:
			for i, l := range x.Lhs {
				id, ok := l.(*ast.Ident)
				if !ok || info.ObjectOf(id) != obj {
					continue
				}
				writes++
				if len(x.Rhs) == len(x.Lhs) {
					def = &eLocalDef{rhs: x.Rhs[i], index: 0, n: 1, stmt: x}
				} else if len(x.Rhs) == 1 {
					def = &eLocalDef{rhs: x.Rhs[0], index: i, n: len(x.Lhs), stmt: x}
				}
			}
		case *ast.ValueSpec:
			for i, id := range x.Names {
				if info.Defs[id] != obj {
					continue
				}
				writes++
				if len(x.Values) == len(x.Names) {
					def = &eLocalDef{rhs: x.Values[i], index: 0, n: 1, stmt: x}
				} else if len(x.Values) == 1 {
					def = &eLocalDef{rhs: x.Values[0], index: i, n: len(x.Names), stmt: x}
				} else {
					def = nil
				}
			}
		case *ast.RangeStmt:
			for _, l := range []ast.Expr{x.Key, x.Value} {
				if id, ok := l.(*ast.Ident); ok && info.ObjectOf(id) == obj {
					writes += 2 // a range variable has no single defining expression
				}
			}
		case *ast.IncDecStmt:
			if id, ok := x.X.(*ast.Ident); ok && info.ObjectOf(id) == obj {
				writes++
			}
		}
		return true
	})
	if writes != 1 {
		return nil
	}
	return def
}

// eResolve replaces a local identifier that has a single defining expression by that expression
// (repeatedly), so that `x := e; f(x)` and `f(e)` are treated alike.
func eResolve(info *types.Info, root ast.Node, e ast.Expr) ast.Expr {
	for i := 0; i < 8; i++ {
		id, ok := ast.Unparen(e).(*ast.Ident)
		if !ok {
			return e
		}
		v, ok := info.ObjectOf(id).(*types.Var)
		if !ok || v.IsField() || v.Parent() == nil || v.Parent() == v.Pkg().Scope() {
			return e
		}
		d := eSingleDef(info, root, v)
		if d == nil || d.n != 1 {
			return e
		}
		e = d.rhs
	}
	return e
}

// eFollow says which successors of a two-way block an edge-sensitive search takes.
type eFollow int

const (
	eBoth eFollow = iota
	eTrueOnly
	eFalseOnly
	eNone // the path is discharged here
)

// eEdgeSearch walks a go/cfg graph forward from (block, index). visit is called for every node;
// isCond tells that the node is the condition ending a two-way block (go/cfg keeps the whole
// condition as one node: Succs[0] is taken when it is true; use eCondEval to look inside !, &&, ||). visit returns bad=true to
// report a witness, or the successors to follow. A path that leaves the function normally is a
// witness when exitIsBad is set.
type eEdgeSearch struct {
	c         *Ctx
	info      *types.Info
	visit     func(n ast.Node, isCond bool) (bad bool, follow eFollow)
	exitIsBad bool
	// stopBlock (optional): a path that enters such a block is discharged (e.g. the head of a
	// loop: the next iteration starts afresh).
	stopBlock func(b *cfg.Block) bool
}

func (es *eEdgeSearch) run(b *cfg.Block, start int) []string {
	type item struct {
		b     *cfg.Block
		start int
		trail []string
	}
	seen := map[*cfg.Block]bool{}
	work := []item{{b, start, nil}}
	for len(work) > 0 {
		it := work[0]
		work = work[1:]
		follow := eBoth
		for i := it.start; i < len(it.b.Nodes); i++ {
			n := it.b.Nodes[i]
			_, isExpr := n.(ast.Expr)
			isCond := i == len(it.b.Nodes)-1 && len(it.b.Succs) == 2 && isExpr
			bad, f := es.visit(n, isCond)
			if bad {
				return append(append([]string(nil), it.trail...), "reaches "+es.c.Position(n.Pos())+" "+nodeText(es.c.Fset, n))
			}
			if f != eBoth {
				follow = f
				break
			}
		}
		if follow == eNone {
			continue
		}
		if len(it.b.Succs) == 0 {
			if es.exitIsBad && isExitBlock(es.info, it.b) {
				where := "end of function"
				if len(it.b.Nodes) > 0 {
					last := it.b.Nodes[len(it.b.Nodes)-1]
					where = es.c.Position(last.Pos()) + " " + nodeText(es.c.Fset, last)
				}
				return append(append([]string(nil), it.trail...), "leaves the function at "+where)
			}
			continue
		}
		for k, s := range it.b.Succs {
			if len(it.b.Succs) == 2 && ((follow == eTrueOnly && k == 1) || (follow == eFalseOnly && k == 0)) {
				continue
			}
			if seen[s] {
				continue
			}
			seen[s] = true
			if es.stopBlock != nil && es.stopBlock(s) {
				continue
			}
			t := it.trail
			if len(s.Nodes) > 0 {
				t = append(append([]string(nil), it.trail...), es.c.Position(s.Nodes[0].Pos())+" ("+s.Kind.String()+")")
			}
			work = append(work, item{s, 0, t})
		}
	}
	return nil
}

// eCondEval evaluates a condition in three-valued logic: atom gives the value of a leaf under the
// assumptions of the caller (known=false: no assumption); !, && and || are interpreted.
func eCondEval(e ast.Expr, atom func(ast.Expr) (bool, bool)) (bool, bool) {
	e = ast.Unparen(e)
	if v, known := atom(e); known {
		return v, true
	}
	switch x := e.(type) {
	case *ast.UnaryExpr:
		if x.Op == token.NOT {
			v, known := eCondEval(x.X, atom)
			return !v, known
		}
	case *ast.BinaryExpr:
		if x.Op == token.LAND || x.Op == token.LOR {
			a, ka := eCondEval(x.X, atom)
			b, kb := eCondEval(x.Y, atom)
			if x.Op == token.LAND {
				if (ka && !a) || (kb && !b) {
					return false, true
				}
				return true, ka && kb
			}
			if (ka && a) || (kb && b) {
				return true, true
			}
			return false, ka && kb
		}
	}
	return false, false
}

func eFollowOf(v, known bool) eFollow {
	if !known {
		return eBoth
	}
	if v {
		return eTrueOnly
	}
	return eFalseOnly
}

// ---------------------------------------------------------------------------------------------
// SSA helpers

// eSSAIsRecv: the value is the receiver of the method a function (or a closure nested in it)
// belongs to: the receiver parameter itself, the cell it was spilled to when captured, or the free
// variable of a closure bound to either.
func eSSAIsRecv(v ssa.Value) bool {
	for i := 0; i < 16; i++ {
		switch x := v.(type) {
		case *ssa.Parameter:
			f := x.Parent()
			return f != nil && f.Signature.Recv() != nil && len(f.Params) > 0 && f.Params[0] == x
		case *ssa.UnOp:
			if x.Op != token.MUL {
				return false
			}
			// load from a cell: the cell must be the spill slot of the receiver
			switch cell := x.X.(type) {
			case *ssa.Alloc:
				var stored ssa.Value
				n := 0
				for _, r := range *cell.Referrers() {
					if st, ok := r.(*ssa.Store); ok && st.Addr == cell {
						stored = st.Val
						n++
					}
				}
				if n != 1 {
					return false
				}
				v = stored
			case *ssa.FreeVar:
				b := eFreeVarBinding(cell)
				if b == nil {
					return false
				}
				if a, ok := b.(*ssa.Alloc); ok {
					var stored ssa.Value
					n := 0
					for _, r := range *a.Referrers() {
						if st, ok := r.(*ssa.Store); ok && st.Addr == a {
							stored = st.Val
							n++
						}
					}
					if n != 1 {
						return false
					}
					v = stored
				} else {
					return false
				}
			default:
				return false
			}
		case *ssa.FreeVar:
			b := eFreeVarBinding(x)
			if b == nil {
				return false
			}
			v = b
		default:
			return false
		}
	}
	return false
}

// eFreeVarBinding finds the value bound to a free variable where its closure is created.
func eFreeVarBinding(fv *ssa.FreeVar) ssa.Value {
	fn := fv.Parent()
	if fn == nil || fn.Parent() == nil {
		return nil
	}
	idx := -1
	for i, f := range fn.FreeVars {
		if f == fv {
			idx = i
		}
	}
	if idx < 0 {
		return nil
	}
	var found ssa.Value
	for _, b := range fn.Parent().Blocks {
		for _, in := range b.Instrs {
			if mc, ok := in.(*ssa.MakeClosure); ok && mc.Fn == fn && idx < len(mc.Bindings) {
				found = mc.Bindings[idx]
			}
		}
	}
	return found
}

// eSSAFieldOfRecv: v is a load (possibly repeated, possibly converted) of a field of the method
// receiver; returns the index of that field in the receiver's struct, or -1.
func eSSAFieldOfRecv(v ssa.Value) int {
	for i := 0; i < 8; i++ {
		switch x := v.(type) {
		case *ssa.UnOp:
			if x.Op != token.MUL {
				return -1
			}
			v = x.X
		case *ssa.ChangeType:
			v = x.X
		case *ssa.ChangeInterface:
			v = x.X
		case *ssa.MakeInterface:
			v = x.X
		case *ssa.FieldAddr:
			if eSSAIsRecv(x.X) {
				return x.Field
			}
			return -1
		case *ssa.Field:
			if u, ok := x.X.(*ssa.UnOp); ok && u.Op == token.MUL && eSSAIsRecv(u.X) {
				return x.Field
			}
			return -1
		default:
			return -1
		}
	}
	return -1
}

func eFieldIndex(st *types.Struct, f *types.Var) int {
	for i := 0; i < st.NumFields(); i++ {
		if st.Field(i) == f {
			return i
		}
	}
	return -1
}

// eCallOnField: the instruction is a call (interface invoke or static method call) whose
// receiver is a load of a receiver field; returns that field index and the call's remaining
// arguments, else -1.
func eCallOnField(in ssa.Instruction) (int, *ssa.CallCommon, []ssa.Value) {
	call, ok := in.(ssa.CallInstruction)
	if !ok {
		return -1, nil, nil
	}
	cc := call.Common()
	if cc.IsInvoke() {
		return eSSAFieldOfRecv(cc.Value), cc, cc.Args
	}
	if f := cc.StaticCallee(); f != nil && f.Signature.Recv() != nil && len(cc.Args) > 0 {
		return eSSAFieldOfRecv(cc.Args[0]), cc, cc.Args[1:]
	}
	return -1, nil, nil
}

// eDependsOn: does value v depend (through operands, up to a bounded depth) on target?
func eDependsOn(v ssa.Value, target func(ssa.Value) bool) bool {
	seen := map[ssa.Value]bool{}
	var rec func(v ssa.Value, d int) bool
	rec = func(v ssa.Value, d int) bool {
		if v == nil || seen[v] || d > 24 {
			return false
		}
		seen[v] = true
		if target(v) {
			return true
		}
		in, ok := v.(ssa.Instruction)
		if !ok {
			return false
		}
		for _, op := range in.Operands(nil) {
			if *op != nil && rec(*op, d+1) {
				return true
			}
		}
		return false
	}
	return rec(v, 0)
}

// eReachableBlocks returns the blocks reachable from b (including b).
func eReachableBlocks(b *ssa.BasicBlock) map[*ssa.BasicBlock]bool {
	seen := map[*ssa.BasicBlock]bool{}
	var walk func(*ssa.BasicBlock)
	walk = func(x *ssa.BasicBlock) {
		if seen[x] {
			return
		}
		seen[x] = true
		for _, s := range x.Succs {
			walk(s)
		}
	}
	walk(b)
	return seen
}

// eInstrDominates: a is executed before b on every path that reaches b (dominance, same-block order).
func eInstrDominates(a, b ssa.Instruction) bool {
	if a.Block() == b.Block() {
		for _, in := range a.Block().Instrs {
			if in == a {
				return true
			}
			if in == b {
				return false
			}
		}
		return false
	}
	return a.Block().Dominates(b.Block())
}
