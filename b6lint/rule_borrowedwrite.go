package main

import (
	"fmt"
	"go/ast"
	"go/token"
	"go/types"
	"sort"
	"strings"
)

// BORROWED-WRITE (C14, C38): some accessors hand out the storage they read from instead of a copy
// (`func (t Tags) AllTags() Tags { return t }`, and every AllTags that returns a field). What they
// return is borrowed: the feature — possibly one that a snapshot or a world owns — still uses that
// backing array. A caller that filters "in place" (`kept := tags[:0]; kept = append(kept, …)`),
// stores into an element, or sorts the slice rewrites the owner's data through the loan.
//
// Slots (by shape, packages ingest and the root package): a *borrowing accessor* is a module method
// whose every return hands back its receiver, a field of its receiver, or the result of another
// borrowing accessor, and whose result is a slice; an interface method counts as borrowing when any
// module implementation of that name is. One obligation per local that receives the result of a
// borrowing accessor (directly, or a re-slice of it): no element store, in-place sort, copy() into
// it, or append onto a re-slice of it, through the local or a local alias of it.
func init() {
	register(&Rule{
		Name:  "BORROWED-WRITE",
		IR:    "ast",
		Props: []string{"C14", "C38"},
		Floor: 2,
		Doc:   "a slice obtained from an accessor that returns its owner's storage (AllTags and its like) is only read: no element store, in-place sort, copy into it or append onto a re-slice of it, directly or through a local alias",
		Run:   runBorrowedWrite,
	})
}

func runBorrowedWrite(c *Ctx) []Obligation {
	var out []Obligation
	// borrowing accessors by method name, over the whole module
	borrowing := map[*types.Func]bool{}
	byName := map[string]bool{}
	type decl struct {
		fd   *ast.FuncDecl
		info *types.Info
		obj  *types.Func
		recv types.Object
	}
	var decls []decl
	for _, p := range c.SortedPkgs() {
		for _, fd := range c.FuncDecls(p) {
			if fd.Recv == nil || len(fd.Recv.List) != 1 || len(fd.Recv.List[0].Names) != 1 {
				continue
			}
			obj, _ := p.TypesInfo.Defs[fd.Name].(*types.Func)
			if obj == nil {
				continue
			}
			sig := obj.Type().(*types.Signature)
			if sig.Results().Len() != 1 || sig.Params().Len() != 0 {
				continue
			}
			if _, ok := sig.Results().At(0).Type().Underlying().(*types.Slice); !ok {
				continue
			}
			decls = append(decls, decl{fd, p.TypesInfo, obj, p.TypesInfo.Defs[fd.Recv.List[0].Names[0]]})
		}
	}
	for changed := true; changed; {
		changed = false
		for _, d := range decls {
			if borrowing[d.obj] {
				continue
			}
			all, any := true, false
			inspectShallow(d.fd.Body, func(n ast.Node) bool {
				r, ok := n.(*ast.ReturnStmt)
				if !ok || len(r.Results) != 1 {
					return true
				}
				any = true
				e := ast.Unparen(r.Results[0])
				// conversions keep the backing array
				for {
					call, ok := e.(*ast.CallExpr)
					if !ok || len(call.Args) != 1 {
						break
					}
					if tv, ok := d.info.Types[call.Fun]; ok && tv.IsType() {
						e = ast.Unparen(call.Args[0])
						continue
					}
					break
				}
				switch x := e.(type) {
				case *ast.Ident:
					if d.info.Uses[x] != d.recv {
						all = false
					}
				case *ast.StarExpr:
					if id, ok := ast.Unparen(x.X).(*ast.Ident); !ok || d.info.Uses[id] != d.recv {
						all = false
					}
				case *ast.SelectorExpr:
					if id, ok := ast.Unparen(x.X).(*ast.Ident); !ok || d.info.Uses[id] != d.recv {
						all = false
					}
				case *ast.CallExpr:
					if g := calleeFunc(d.info, x); g == nil || !(borrowing[g.Origin()] || (byName[g.Name()] && g.Type().(*types.Signature).Recv() != nil)) {
						all = false
					}
				default:
					all = false
				}
				return true
			})
			if any && all {
				borrowing[d.obj] = true
				byName[d.obj.Name()] = true
				changed = true
			}
		}
	}
	isBorrowCall := func(info *types.Info, e ast.Expr) (string, bool) {
		call, ok := ast.Unparen(e).(*ast.CallExpr)
		if !ok || len(call.Args) != 0 {
			return "", false
		}
		g := calleeFunc(info, call)
		if g == nil {
			return "", false
		}
		if borrowing[g.Origin()] {
			return g.Name(), true
		}
		// interface method of the same name
		if sig, ok := g.Type().(*types.Signature); ok && sig.Recv() != nil {
			if _, isIface := sig.Recv().Type().Underlying().(*types.Interface); isIface && byName[g.Name()] {
				return g.Name(), true
			}
		}
		return "", false
	}
	for _, rel := range []string{"", "ingest"} {
		p := c.Pkg(rel)
		if p == nil {
			continue
		}
		info := p.TypesInfo
		for _, fd := range c.FuncDecls(p) {
			name := c.FuncName(p, fd)
			// locals that receive a borrowed slice
			type loan struct {
				obj  types.Object
				from string
				pos  token.Pos
			}
			var loans []loan
			ast.Inspect(fd.Body, func(n ast.Node) bool {
				as, ok := n.(*ast.AssignStmt)
				if !ok || len(as.Lhs) != len(as.Rhs) {
					return true
				}
				for i, l := range as.Lhs {
					id, ok := l.(*ast.Ident)
					if !ok {
						continue
					}
					rhs := ast.Unparen(as.Rhs[i])
					if se, ok := rhs.(*ast.SliceExpr); ok {
						rhs = ast.Unparen(se.X)
					}
					if m, ok := isBorrowCall(info, rhs); ok {
						o := info.Defs[id]
						if o == nil {
							o = info.Uses[id]
						}
						if o != nil {
							loans = append(loans, loan{o, m, as.Pos()})
						}
					}
				}
				return true
			})
			for li, ln := range loans {
				alias := map[types.Object]bool{ln.obj: true}
				rootOf := func(e ast.Expr) bool {
					for {
						switch x := ast.Unparen(e).(type) {
						case *ast.SliceExpr:
							e = x.X
						case *ast.Ident:
							o := info.Uses[x]
							return o != nil && alias[o]
						default:
							return false
						}
					}
				}
				for changed := true; changed; {
					changed = false
					ast.Inspect(fd.Body, func(n ast.Node) bool {
						as, ok := n.(*ast.AssignStmt)
						if !ok || len(as.Lhs) != len(as.Rhs) || as.Pos() < ln.pos {
							return true
						}
						for j, l := range as.Lhs {
							id, ok := l.(*ast.Ident)
							if !ok || !rootOf(as.Rhs[j]) {
								continue
							}
							o := info.Defs[id]
							if o == nil {
								o = info.Uses[id]
							}
							if o != nil && !alias[o] {
								alias[o], changed = true, true
							}
						}
						return true
					})
				}
				var writes []string
				ast.Inspect(fd.Body, func(n ast.Node) bool {
					switch s := n.(type) {
					case *ast.AssignStmt:
						for _, l := range s.Lhs {
							if ix, ok := ast.Unparen(l).(*ast.IndexExpr); ok && rootOf(ix.X) {
								writes = append(writes, fmt.Sprintf("%s: element store %s", c.Position(s.Pos()), nodeText(c.Fset, s)))
							}
						}
					case *ast.CallExpr:
						if isBuiltin(info, s, "copy") && len(s.Args) == 2 && rootOf(s.Args[0]) {
							writes = append(writes, fmt.Sprintf("%s: copy into it: %s", c.Position(s.Pos()), nodeText(c.Fset, s)))
						}
						if isBuiltin(info, s, "append") && len(s.Args) > 1 && rootOf(s.Args[0]) {
							// append onto a zero/short re-slice or onto an alias defined as a re-slice of the loan
							if se, ok := ast.Unparen(s.Args[0]).(*ast.SliceExpr); ok && se.High != nil {
								writes = append(writes, fmt.Sprintf("%s: append onto a re-slice of it: %s", c.Position(s.Pos()), nodeText(c.Fset, s)))
							} else if id, ok := ast.Unparen(s.Args[0]).(*ast.Ident); ok && info.Uses[id] != ln.obj {
								// an alias: was it defined as a prefix re-slice?
								ast.Inspect(fd.Body, func(k ast.Node) bool {
									as, ok := k.(*ast.AssignStmt)
									if !ok || len(as.Lhs) != len(as.Rhs) {
										return true
									}
									for j, l := range as.Lhs {
										if lid, ok := l.(*ast.Ident); ok && (info.Defs[lid] == info.Uses[id] || info.Uses[lid] == info.Uses[id]) {
											if se, ok := ast.Unparen(as.Rhs[j]).(*ast.SliceExpr); ok && se.High != nil && rootOf(se.X) {
												writes = append(writes, fmt.Sprintf("%s: append onto %s, a prefix re-slice of it (defined at %s)", c.Position(s.Pos()), id.Name, c.Position(as.Pos())))
											}
										}
									}
									return true
								})
							}
						}
						if fn := calleeFunc(info, s); fn != nil && fn.Pkg() != nil && len(s.Args) > 0 && rootOf(s.Args[0]) {
							if (fn.Pkg().Path() == "sort" && (fn.Name() == "Slice" || fn.Name() == "SliceStable" || fn.Name() == "Sort" || fn.Name() == "Stable" || fn.Name() == "Strings")) ||
								(fn.Pkg().Path() == "slices" && (strings.HasPrefix(fn.Name(), "Sort") || fn.Name() == "Reverse")) {
								writes = append(writes, fmt.Sprintf("%s: in-place %s", c.Position(s.Pos()), nodeText(c.Fset, s)))
							}
						}
					}
					return true
				})
				ob := Obligation{Key: fmt.Sprintf("%s#%d", name, li+1), Pos: c.Position(ln.pos), Status: OK,
					Detail: fmt.Sprintf("%s holds the owner's storage (from %s) and is only read", ln.obj.Name(), ln.from)}
				if len(writes) > 0 {
					sort.Strings(writes)
					ob.Status = Violation
					ob.Detail = fmt.Sprintf("%s holds the storage of the value %s() was called on, not a copy, and is written through: %s — a feature owned by a world or a snapshot has its data rewritten by a reader", ln.obj.Name(), ln.from, writes[0])
					ob.Path = writes
				}
				out = append(out, ob)
			}
		}
	}
	return out
}
