package main

import (
	"fmt"
	"go/ast"
	"go/token"
	"go/types"

	"golang.org/x/tools/go/cfg"
)

// MISS-VALUE (C37, C01): a comma-ok lookup in a map whose values are states of an enumeration
// (`s, ok := v.paths[id]`) yields the enumeration's zero value on a miss — here
// ValidationStateValid, the first constant. Code that tests `ok` knows that a miss is a separate
// case; if it then reads `s` on the miss path as well, the key that was never seen is treated as
// being in the state that happens to be numbered 0: an area whose path has not arrived counts as
// having a valid path and is written to the index without ever being validated.
//
// Subjects, by type (whole module): comma-ok lookups `s, ok := M[k]` where the value type of M is
// a named integer type for which the package declares constants, and `ok` is tested by an if
// statement. Obligation (on the function's control-flow graph): no read of s is reachable from the
// miss edge of a test of ok before s is assigned again.
func init() {
	register(&Rule{
		Name:  "MISS-VALUE",
		IR:    "cfg",
		Props: []string{"C37", "C01"},
		Floor: 1,
		Doc:   "the value of a comma-ok lookup in a map of enumeration states is not read on the path where the lookup missed (it would be the state numbered 0, not 'unknown')",
		Run:   runMissValue,
	})
}

func runMissValue(c *Ctx) []Obligation {
	var out []Obligation
	for _, p := range c.SortedPkgs() {
		info := p.TypesInfo
		// enum types: named integer types with at least two package-level constants
		consts := map[*types.Named]int{}
		for _, name := range p.Types.Scope().Names() {
			if k, ok := p.Types.Scope().Lookup(name).(*types.Const); ok {
				if n, ok := k.Type().(*types.Named); ok {
					if b, ok := n.Underlying().(*types.Basic); ok && b.Info()&types.IsInteger != 0 {
						consts[n]++
					}
				}
			}
		}
		for _, fd := range c.FuncDecls(p) {
			if fd.Body == nil {
				continue
			}
			name := c.FuncName(p, fd)
			ord := 0
			var g *cfg.CFG
			ast.Inspect(fd.Body, func(n ast.Node) bool {
				as, ok := n.(*ast.AssignStmt)
				if !ok || len(as.Lhs) != 2 || len(as.Rhs) != 1 {
					return true
				}
				ix, ok := ast.Unparen(as.Rhs[0]).(*ast.IndexExpr)
				if !ok {
					return true
				}
				mt, ok := info.TypeOf(ix.X).Underlying().(*types.Map)
				if !ok {
					return true
				}
				en, ok := mt.Elem().(*types.Named)
				if !ok || consts[en] < 2 {
					return true
				}
				sid, ok1 := as.Lhs[0].(*ast.Ident)
				oid, ok2 := as.Lhs[1].(*ast.Ident)
				if !ok1 || !ok2 || sid.Name == "_" || oid.Name == "_" {
					return true
				}
				sv, ov := info.Defs[sid], info.Defs[oid]
				if sv == nil {
					sv = info.Uses[sid]
				}
				if ov == nil {
					ov = info.Uses[oid]
				}
				if sv == nil || ov == nil {
					return true
				}
				if g == nil {
					g = newCFG(info, fd.Body)
				}
				// miss edges: blocks entered when ok is false
				var missEntries []*cfg.Block
				tested := false
				for _, b := range g.Blocks {
					if len(b.Nodes) == 0 || len(b.Succs) != 2 {
						continue
					}
					cond, ok := b.Nodes[len(b.Nodes)-1].(ast.Expr)
					if !ok {
						continue
					}
					cond = ast.Unparen(cond)
					if id, ok := cond.(*ast.Ident); ok && info.Uses[id] == ov {
						missEntries = append(missEntries, b.Succs[1])
						tested = true
					} else if u, ok := cond.(*ast.UnaryExpr); ok && u.Op == token.NOT {
						if id, ok := ast.Unparen(u.X).(*ast.Ident); ok && info.Uses[id] == ov {
							missEntries = append(missEntries, b.Succs[0])
							tested = true
						}
					}
				}
				if !tested {
					return true
				}
				ord++
				ob := Obligation{Key: fmt.Sprintf("%s#%d", name, ord), Pos: c.Position(as.Pos()), Status: OK,
					Detail: fmt.Sprintf("%s is read only where the lookup %s hit", sid.Name, srcText(c.Fset, as))}
				seen := map[int32]bool{}
				var walk func(b *cfg.Block) bool
				walk = func(b *cfg.Block) bool {
					if seen[b.Index] {
						return false
					}
					seen[b.Index] = true
					for _, nd := range b.Nodes {
						// the lookup itself (loop back edge) redefines s
						if nd == ast.Node(as) {
							return false
						}
						reassigned := false
						bad := token.NoPos
						ast.Inspect(nd, func(k ast.Node) bool {
							if k == ast.Node(as) {
								reassigned = true
								return false
							}
							if a2, ok := k.(*ast.AssignStmt); ok {
								for _, r := range a2.Rhs {
									ast.Inspect(r, func(q ast.Node) bool {
										if id, ok := q.(*ast.Ident); ok && info.Uses[id] == sv && bad == token.NoPos {
											bad = id.Pos()
										}
										return true
									})
								}
								for _, l := range a2.Lhs {
									if id, ok := l.(*ast.Ident); ok && (info.Uses[id] == sv || info.Defs[id] == sv) {
										reassigned = true
									}
								}
								return false
							}
							if id, ok := k.(*ast.Ident); ok && info.Uses[id] == sv && bad == token.NoPos {
								bad = id.Pos()
							}
							return true
						})
						if bad != token.NoPos {
							ob.Status = Violation
							ob.Pos = c.Position(bad)
							ob.Detail = fmt.Sprintf("%s is read at %s on a path on which the lookup %s missed: there it is the zero value of %s — the state numbered 0 — not a state anybody recorded for %s", sid.Name, c.Position(bad), srcText(c.Fset, as), en.Obj().Name(), srcText(c.Fset, ix.Index))
							return true
						}
						if reassigned {
							return false
						}
					}
					for _, s := range b.Succs {
						if walk(s) {
							return true
						}
					}
					return false
				}
				for _, e := range missEntries {
					if walk(e) {
						break
					}
				}
				out = append(out, ob)
				return true
			})
		}
	}
	return out
}
