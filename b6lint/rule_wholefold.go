package main

import (
	"fmt"
	"go/ast"
	"go/types"
	"strings"
)

// WHOLE-FOLD (C31): the text form of a feature ID is `/type/namespace/value`. The type names are
// case-insensitive keywords at most; the namespace is data (`naptan.org.uk/ATCO`), printed back
// verbatim by every marshaller. A parser that folds the case of the whole string before it splits
// it (to accept `/Point/…`) folds the namespace too: IDs that differ in the case of their
// namespace collapse into one, and such an ID no longer survives its own text encoding.
//
// Subjects, by type (root package and package api): functions with a string parameter whose
// result (or first result) is b6.FeatureID. Obligation: no case-mapping function of package
// strings or unicode (ToLower, ToUpper, Title, ToTitle, EqualFold is fine) is applied to the whole
// parameter; components obtained by splitting or slicing may be folded.
func init() {
	register(&Rule{
		Name:  "WHOLE-FOLD",
		IR:    "ast",
		Props: []string{"C31"},
		Floor: 3,
		Doc:   "a parser of textual feature IDs does not fold the case of the whole input (the namespace is data and is printed back verbatim); only components obtained by splitting may be folded",
		Run:   runWholeFold,
	})
}

func runWholeFold(c *Ctx) []Obligation {
	var out []Obligation
	for _, rel := range []string{"", "api"} {
		p := c.Pkg(rel)
		if p == nil {
			continue
		}
		info := p.TypesInfo
		for _, fd := range c.FuncDecls(p) {
			obj, _ := info.Defs[fd.Name].(*types.Func)
			if obj == nil || fd.Body == nil {
				continue
			}
			sig := obj.Type().(*types.Signature)
			if sig.Results().Len() == 0 {
				continue
			}
			rn := namedOf(sig.Results().At(0).Type())
			if rn == nil || rn.Obj().Name() != "FeatureID" || rn.Obj().Pkg() == nil || rn.Obj().Pkg().Path() != ModulePath {
				continue
			}
			var params []types.Object
			for i := 0; i < sig.Params().Len(); i++ {
				if b, ok := sig.Params().At(i).Type().Underlying().(*types.Basic); ok && b.Kind() == types.String {
					params = append(params, sig.Params().At(i))
				}
			}
			if len(params) == 0 {
				continue
			}
			ob := Obligation{Key: c.FuncName(p, fd), Pos: c.Position(fd.Pos()), Status: OK, Detail: "the case of the whole input is not folded"}
			ast.Inspect(fd.Body, func(n ast.Node) bool {
				call, ok := n.(*ast.CallExpr)
				if !ok || ob.Status != OK || len(call.Args) == 0 {
					return true
				}
				f := calleeFunc(info, call)
				if f == nil || f.Pkg() == nil || (f.Pkg().Path() != "strings" && f.Pkg().Path() != "unicode" && f.Pkg().Path() != "bytes") {
					return true
				}
				if !strings.HasPrefix(f.Name(), "To") && f.Name() != "Title" {
					return true
				}
				for _, a := range call.Args {
					if id, ok := ast.Unparen(a).(*ast.Ident); ok {
						for _, prm := range params {
							if info.Uses[id] == prm {
								ob.Status = Violation
								ob.Pos = c.Position(call.Pos())
								ob.Detail = fmt.Sprintf("%s folds the case of the whole input before it is split: the namespace is data (printed back verbatim by the marshallers), so an ID whose namespace has an upper-case letter no longer survives its text encoding, and IDs that differ in the case of their namespace collapse", srcText(c.Fset, call))
							}
						}
					}
				}
				return true
			})
			out = append(out, ob)
		}
	}
	return out
}
