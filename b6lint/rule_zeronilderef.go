package main

import (
	"fmt"
	"go/ast"
	"go/token"
	"go/types"

	"golang.org/x/tools/go/cfg"
)

// ZERO-NIL-DEREF (C23). Instances: every local `var x T` without initialiser whose type is a
// pointer or an interface, in packages api and api/functions (function literals included).
// Such a variable starts as nil. The rule reports it when
//
//   - every assignment to x sits inside a loop body or a conditional (if/switch/select/for/
//     range) that does not contain the declaration (or there is no assignment at all), and
//   - some dereference of x lies after one of those statements, and
//   - the control-flow graph has a path from the declaration to that dereference on which x is
//     neither assigned nor known to be non-nil.
//
// A dereference is: a method call or method value on an interface x; for a pointer x a field
// selection, `*x`, indexing a pointer to array, a value-receiver or promoted method. A call of
// a method declared on the pointer type itself is not a dereference (a nil receiver is legal).
//
// Accepted idioms (x is not reported):
//   - x assigned on every path (if/else both arms, switch with default whose arms all assign
//     or leave);
//   - a nil test of x: the false edge of `x == nil`, the true edge of `x != nil`, also as an
//     operand of && / || / ! in an if, for or tag-less switch condition, and the right operand
//     of `x != nil && …` / `x == nil || …` inside any expression;
//   - `&x` and any function literal that assigns x or takes its address count as an assignment
//     at the place where they occur (the rule does not follow them);
//   - dereferences inside function literals are not examined (they run at an unknown time).
//
// Exceptions (none today) go in dZeroNilExceptions: one named symbol `pkg.Func:var` with a reason.
var dZeroNilExceptions = map[string]string{}

func init() {
	register(&Rule{
		Name:  "ZERO-NIL-DEREF",
		IR:    "cfg",
		Props: []string{"C23"},
		Floor: 27, // uninitialised pointer/interface locals in api and api/functions on the original tree
		Doc: "a local `var x T` of pointer or interface type without initialiser (packages api, api/functions) that is only assigned inside loop bodies or " +
			"conditionals is not dereferenced after them on a control-flow path that neither assigns x nor passes a nil test of x",
		Run: runZeroNilDeref,
	})
}

type dZVar struct {
	obj  *types.Var
	decl *ast.DeclStmt
	spec *ast.ValueSpec // the CFG node of the declaration
}

func runZeroNilDeref(c *Ctx) []Obligation {
	var sites []dSite
	for _, rel := range []string{"api", "api/functions"} {
		p := c.Pkg(rel)
		if p == nil {
			continue
		}
		info := p.TypesInfo
		for _, u := range c.units(p, true) {
			var vars []dZVar
			inspectShallow(u.body, func(n ast.Node) bool {
				ds, ok := n.(*ast.DeclStmt)
				if !ok {
					return true
				}
				gd, ok := ds.Decl.(*ast.GenDecl)
				if !ok || gd.Tok != token.VAR {
					return true
				}
				for _, sp := range gd.Specs {
					vs, ok := sp.(*ast.ValueSpec)
					if !ok || len(vs.Values) > 0 {
						continue
					}
					for _, name := range vs.Names {
						obj, _ := info.Defs[name].(*types.Var)
						if obj == nil || name.Name == "_" || !dIsPointerOrInterface(obj.Type()) {
							continue
						}
						vars = append(vars, dZVar{obj, ds, vs})
					}
				}
				return true
			})
			if len(vars) == 0 {
				continue
			}
			g := newCFG(info, u.body)
			declName := c.FuncName(p, u.decl)
			for _, v := range vars {
				s := dSite{decl: declName, pos: v.obj.Pos()}
				a := &dZAnalysis{c: c, info: info, body: u.body, g: g, v: v}
				a.run(&s)
				if why, ok := dZeroNilExceptions[declName+":"+v.obj.Name()]; ok && s.status != OK {
					s.status, s.detail, s.path = OK, "exception: "+why, nil
				}
				sites = append(sites, s)
			}
		}
	}
	return dObligations(c, sites)
}

type dZAnalysis struct {
	c    *Ctx
	info *types.Info
	body *ast.BlockStmt
	g    *cfg.CFG
	v    dZVar

	tagless map[*ast.CaseClause]bool
	after   []token.Pos // ends of the conditional/loop statements that hold assignments
	nassign int
}

func (a *dZAnalysis) isX(e ast.Expr) bool {
	id, ok := ast.Unparen(e).(*ast.Ident)
	return ok && a.info.ObjectOf(id) == types.Object(a.v.obj)
}

// assignsIn reports whether the syntax tree n (function literals included) assigns x or takes
// its address.
func (a *dZAnalysis) assignsIn(n ast.Node) bool {
	found := false
	ast.Inspect(n, func(m ast.Node) bool {
		if found || m == nil {
			return false
		}
		switch s := m.(type) {
		case *ast.AssignStmt:
			for _, l := range s.Lhs {
				if a.isX(l) {
					found = true
				}
			}
		case *ast.RangeStmt:
			if s.Tok == token.ASSIGN && ((s.Key != nil && a.isX(s.Key)) || (s.Value != nil && a.isX(s.Value))) {
				found = true
			}
		case *ast.UnaryExpr:
			if s.Op == token.AND && a.isX(s.X) {
				found = true
			}
		}
		return !found
	})
	return found
}

// nodeAssigns: does executing CFG node n assign x? Compound statements never appear as CFG
// nodes except RangeStmt-less markers, so n is a simple statement or an expression.
func (a *dZAnalysis) nodeAssigns(n ast.Node) bool {
	return a.assignsIn(n)
}

func (a *dZAnalysis) compound(n ast.Node) bool {
	switch n.(type) {
	case *ast.IfStmt, *ast.ForStmt, *ast.RangeStmt, *ast.SwitchStmt, *ast.TypeSwitchStmt, *ast.SelectStmt:
		return true
	}
	return false
}

// nonNilWhen reports whether the condition having the given truth value implies x != nil.
func (a *dZAnalysis) nonNilWhen(e ast.Expr, truth bool) bool {
	e = ast.Unparen(e)
	switch x := e.(type) {
	case *ast.UnaryExpr:
		if x.Op == token.NOT {
			return a.nonNilWhen(x.X, !truth)
		}
	case *ast.BinaryExpr:
		switch x.Op {
		case token.NEQ, token.EQL:
			isNil := func(e ast.Expr) bool {
				id, ok := ast.Unparen(e).(*ast.Ident)
				if !ok {
					return false
				}
				_, ok = a.info.ObjectOf(id).(*types.Nil)
				return ok
			}
			if (a.isX(x.X) && isNil(x.Y)) || (a.isX(x.Y) && isNil(x.X)) {
				return (x.Op == token.NEQ) == truth
			}
		case token.LAND:
			if truth {
				return a.nonNilWhen(x.X, true) || a.nonNilWhen(x.Y, true)
			}
			return a.nonNilWhen(x.X, false) && a.nonNilWhen(x.Y, false)
		case token.LOR:
			if truth {
				return a.nonNilWhen(x.X, true) && a.nonNilWhen(x.Y, true)
			}
			return a.nonNilWhen(x.X, false) || a.nonNilWhen(x.Y, false)
		}
	}
	return false
}

// derefs lists the dereferences of x evaluated by node n, honouring short-circuit guards.
func (a *dZAnalysis) derefs(n ast.Node) []ast.Node {
	var out []ast.Node
	_, isIface := a.v.obj.Type().Underlying().(*types.Interface)
	var walk func(n ast.Node)
	walk = func(n ast.Node) {
		ast.Inspect(n, func(m ast.Node) bool {
			switch e := m.(type) {
			case nil:
				return false
			case *ast.FuncLit:
				return false
			case *ast.BinaryExpr:
				if e.Op == token.LAND || e.Op == token.LOR {
					walk(e.X)
					if !a.nonNilWhen(e.X, e.Op == token.LAND) {
						walk(e.Y)
					}
					return false
				}
			case *ast.SelectorExpr:
				if !a.isX(e.X) {
					return true
				}
				if isIface {
					out = append(out, e)
					return false
				}
				sel := a.info.Selections[e]
				if sel == nil {
					return false
				}
				switch sel.Kind() {
				case types.FieldVal:
					out = append(out, e)
				case types.MethodVal:
					f, _ := sel.Obj().(*types.Func)
					ptrRecv := false
					if f != nil {
						if r := f.Type().(*types.Signature).Recv(); r != nil {
							_, ptrRecv = r.Type().Underlying().(*types.Pointer)
							if _, ok := types.Unalias(r.Type()).(*types.Pointer); ok {
								ptrRecv = true
							}
						}
					}
					if len(sel.Index()) > 1 || !ptrRecv {
						out = append(out, e)
					}
				}
				return false
			case *ast.StarExpr:
				if a.isX(e.X) {
					out = append(out, e)
					return false
				}
			case *ast.IndexExpr:
				if a.isX(e.X) && !isIface {
					out = append(out, e)
					return false
				}
			}
			return true
		})
	}
	walk(n)
	return out
}

func (a *dZAnalysis) run(s *dSite) {
	name := a.v.obj.Name()
	// Where is x assigned, and after which statements may a dereference count?
	unconditional := false
	var visit func(n ast.Node, outer ast.Node)
	visit = func(n ast.Node, outer ast.Node) {
		ast.Inspect(n, func(m ast.Node) bool {
			if m == nil || m == n {
				return m != nil
			}
			if a.compound(m) && !(m.Pos() <= a.v.decl.Pos() && a.v.decl.End() <= m.End()) {
				if a.assignsIn(m) {
					a.nassign++
					if outer == nil {
						a.after = append(a.after, m.End())
					}
				}
				return false // the outermost conditional/loop is the unit
			}
			switch st := m.(type) {
			case *ast.FuncLit:
				if a.assignsIn(st) {
					a.nassign++
					unconditional = true // treated as an assignment where the literal occurs
				}
				return false
			case *ast.AssignStmt:
				for _, l := range st.Lhs {
					if a.isX(l) {
						a.nassign++
						unconditional = true
					}
				}
			case *ast.UnaryExpr:
				if st.Op == token.AND && a.isX(st.X) {
					a.nassign++
					unconditional = true
				}
			}
			return true
		})
	}
	visit(a.body, nil)
	_ = unconditional

	a.tagless = map[*ast.CaseClause]bool{}
	ast.Inspect(a.body, func(m ast.Node) bool {
		if sw, ok := m.(*ast.SwitchStmt); ok && sw.Tag == nil {
			for _, cl := range sw.Body.List {
				if cc, ok := cl.(*ast.CaseClause); ok {
					a.tagless[cc] = true
				}
			}
		}
		return true
	})

	qualifies := func(d ast.Node) bool {
		if a.nassign == 0 {
			return true
		}
		for _, end := range a.after {
			if d.Pos() >= end {
				return true
			}
		}
		return false
	}

	loc, ok := findNode(a.g, a.v.spec)
	if !ok {
		s.status, s.detail = Undecided, fmt.Sprintf("declaration of %s not found in the control-flow graph", name)
		return
	}
	type item struct {
		b     *cfg.Block
		start int
		trail []string
	}
	seen := map[*cfg.Block]bool{}
	work := []item{{loc.b, loc.i + 1, nil}}
	nderef := 0
	for len(work) > 0 {
		it := work[0]
		work = work[1:]
		killed := false
		for i := it.start; i < len(it.b.Nodes) && !killed; i++ {
			n := it.b.Nodes[i]
			for _, d := range a.derefs(n) {
				nderef++
				if qualifies(d) {
					s.status = Violation
					s.detail = fmt.Sprintf("`var %s %s` starts as nil and is only assigned inside loop bodies/conditionals; %s at %s is reached on a path that never assigns %s (nil dereference)",
						name, dShort(a.v.obj.Type()), nodeText(a.c.Fset, d.(ast.Expr)), a.c.Position(d.Pos()), name)
					s.path = append(append([]string{"declared at " + a.c.Position(a.v.decl.Pos())}, it.trail...), "dereferenced at "+a.c.Position(d.Pos())+" "+nodeText(a.c.Fset, n))
					return
				}
			}
			if a.nodeAssigns(n) {
				killed = true
			}
		}
		if killed {
			continue
		}
		succs := it.b.Succs
		skip := -1
		if len(succs) == 2 && len(it.b.Nodes) > 0 {
			if cond, ok := it.b.Nodes[len(it.b.Nodes)-1].(ast.Expr); ok && a.fullCond(succs[0]) {
				if a.nonNilWhen(cond, true) {
					skip = 0
				} else if a.nonNilWhen(cond, false) {
					skip = 1
				}
			}
		}
		for k, sb := range succs {
			if k == skip || seen[sb] {
				continue
			}
			// A range loop that assigns x as its key/value does so on entry to the body.
			if rs, ok := sb.Stmt.(*ast.RangeStmt); ok && sb.Kind == cfg.KindRangeBody && rs.Tok == token.ASSIGN &&
				((rs.Key != nil && a.isX(rs.Key)) || (rs.Value != nil && a.isX(rs.Value))) {
				continue
			}
			seen[sb] = true
			t := it.trail
			if len(sb.Nodes) > 0 {
				t = append(append([]string(nil), it.trail...), fmt.Sprintf("%s (%s)", a.c.Position(sb.Nodes[0].Pos()), sb.Kind))
			}
			work = append(work, item{sb, 0, t})
		}
	}
	s.status = OK
	s.detail = fmt.Sprintf("var %s %s: %d assignment site(s); no dereference after them is reachable without an assignment or nil test", name, dShort(a.v.obj.Type()), a.nassign)
}

// fullCond: the two-way branch into block t is decided by a complete boolean condition (if, for,
// tag-less switch case), not by one half of a tagged switch comparison.
func (a *dZAnalysis) fullCond(t *cfg.Block) bool {
	switch t.Kind {
	case cfg.KindIfThen, cfg.KindForBody:
		return true
	case cfg.KindSwitchCaseBody:
		cc, ok := t.Stmt.(*ast.CaseClause)
		return ok && a.tagless[cc]
	}
	return false
}
