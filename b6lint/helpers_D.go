package main

import (
	"fmt"
	"go/ast"
	"go/token"
	"go/types"
	"path/filepath"
	"sort"
	"strconv"
	"strings"

	"golang.org/x/tools/go/packages"
	"golang.org/x/tools/go/ssa"
)

// Helpers shared by the rules of group D (DEFPANIC, ERR-BEFORE-USE, ZERO-NIL-DEREF).

const dProtoPath = ModulePath + "/proto"

// dRequestScope is the part of the module on the request path (C23): api, api/functions, grpc and
// those files of the root package that import the wire format package diagonal.works/b6/proto
// (the expression and proto conversion code). The filter is by import, not by file name.
func dRequestScope(c *Ctx) []dScopeUnit {
	var out []dScopeUnit
	for _, rel := range []string{"", "api", "api/functions", "grpc"} {
		p := c.Pkg(rel)
		if p == nil {
			continue
		}
		out = append(out, dScopeUnit{p, rel, dScopeFiles(c, p, rel == "")})
	}
	return out
}

type dScopeUnit struct {
	pkg   *packages.Package
	rel   string
	files map[*ast.File]bool // files of the package that are rule subjects
}

// dScopeFiles: the non-generated files of p; with protoOnly only those importing the proto package.
func dScopeFiles(c *Ctx, p *packages.Package, protoOnly bool) map[*ast.File]bool {
	m := map[*ast.File]bool{}
	for _, f := range p.Syntax {
		if c.IsGenerated(f) {
			continue
		}
		if protoOnly {
			imp := false
			for _, is := range f.Imports {
				if path, err := strconv.Unquote(is.Path.Value); err == nil && path == dProtoPath {
					imp = true
				}
			}
			if !imp {
				continue
			}
		}
		m[f] = true
	}
	return m
}

// dDeclsIn: the function declarations of the in-scope files, in source order.
func dDeclsIn(c *Ctx, u dScopeUnit) []*ast.FuncDecl {
	var out []*ast.FuncDecl
	for _, fd := range c.FuncDecls(u.pkg) {
		for f := range u.files {
			if f.Pos() <= fd.Pos() && fd.End() <= f.End() {
				out = append(out, fd)
				break
			}
		}
	}
	return out
}

func dBaseName(c *Ctx, pos token.Pos) string {
	return filepath.Base(c.Fset.Position(pos).Filename)
}

// dFuncSSA returns the SSA function of a declaration followed by all function literals nested
// in it (any depth).
func dFuncSSA(c *Ctx, p *packages.Package, fd *ast.FuncDecl) []*ssa.Function {
	obj, _ := p.TypesInfo.Defs[fd.Name].(*types.Func)
	if obj == nil {
		return nil
	}
	fn := c.SSAFunc(obj)
	if fn == nil || len(fn.Blocks) == 0 {
		return nil
	}
	var out []*ssa.Function
	var walk func(f *ssa.Function)
	walk = func(f *ssa.Function) {
		out = append(out, f)
		for _, a := range f.AnonFuncs {
			walk(a)
		}
	}
	walk(fn)
	return out
}

// dSite is one construct found by a rule inside a declaration; sites are numbered per
// declaration in source order to make keys free of line numbers.
type dSite struct {
	decl   string
	pos    token.Pos
	seq    int // tie-break for constructs without a position
	status string
	detail string
	path   []string
	props  []string
}

func dObligations(c *Ctx, sites []dSite) []Obligation {
	sort.SliceStable(sites, func(i, j int) bool {
		if sites[i].decl != sites[j].decl {
			return sites[i].decl < sites[j].decl
		}
		if sites[i].pos != sites[j].pos {
			return sites[i].pos < sites[j].pos
		}
		return sites[i].seq < sites[j].seq
	})
	var out []Obligation
	ord := map[string]int{}
	for _, s := range sites {
		ord[s.decl]++
		out = append(out, Obligation{
			Key:    fmt.Sprintf("%s#%d", s.decl, ord[s.decl]),
			Pos:    c.Position(s.pos),
			Status: s.status,
			Detail: s.detail,
			Path:   s.path,
			Props:  s.props,
		})
	}
	return out
}

// dIsNilConst reports the constant nil.
func dIsNilConst(v ssa.Value) bool {
	k, ok := v.(*ssa.Const)
	return ok && k.Value == nil && !dIsBasic(k.Type())
}

func dIsBasic(t types.Type) bool {
	_, ok := t.Underlying().(*types.Basic)
	return ok
}

// dConstInt returns the value of an integer constant.
func dConstInt(v ssa.Value) (int64, bool) {
	k, ok := v.(*ssa.Const)
	if !ok || k.Value == nil {
		return 0, false
	}
	if b, ok := k.Type().Underlying().(*types.Basic); !ok || b.Info()&types.IsInteger == 0 {
		return 0, false
	}
	return k.Int64(), true
}

func dIsPointerOrInterface(t types.Type) bool {
	switch t.Underlying().(type) {
	case *types.Pointer, *types.Interface:
		_, tp := types.Unalias(t).(*types.TypeParam)
		return !tp
	}
	return false
}

func dIsErrorType(t types.Type) bool {
	return types.Identical(t, types.Universe.Lookup("error").Type())
}

// dInstrPos: the best source position of an instruction (some, like the load of a range
// element, have none: fall back to operands and then to neighbours in the block).
func dInstrPos(in ssa.Instruction) token.Pos {
	if p := in.Pos(); p.IsValid() {
		return p
	}
	if v, ok := in.(ssa.Value); ok {
		_ = v
	}
	for _, op := range in.Operands(nil) {
		if *op == nil {
			continue
		}
		if oi, ok := (*op).(ssa.Instruction); ok && oi.Pos().IsValid() {
			return oi.Pos()
		}
	}
	b := in.Block()
	idx := -1
	for i, x := range b.Instrs {
		if x == in {
			idx = i
		}
	}
	for d := 1; d < len(b.Instrs); d++ {
		for _, j := range []int{idx - d, idx + d} {
			if j >= 0 && j < len(b.Instrs) && b.Instrs[j].Pos().IsValid() {
				return b.Instrs[j].Pos()
			}
		}
	}
	if b.Parent() != nil {
		return b.Parent().Pos()
	}
	return token.NoPos
}

// dShort renders a type relative to the module.
func dShort(t types.Type) string {
	return types.TypeString(t, func(p *types.Package) string {
		return strings.TrimPrefix(strings.TrimPrefix(p.Path(), ModulePath+"/"), ModulePath)
	})
}
