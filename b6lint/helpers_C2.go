package main

// Helpers of rule group C2 (ACCUMULATE, FIELD-USED, NORMALIZED-UNION).

import (
	"fmt"
	"go/ast"
	"go/token"
	"go/types"
	"sort"

	"golang.org/x/tools/go/packages"
)

const c2S2Path = "github.com/golang/geo/s2"

// c2Keys hands out `func#ordinal` keys in emission order.
type c2Keys struct{ n map[string]int }

func c2NewKeys() *c2Keys { return &c2Keys{n: map[string]int{}} }

func (k *c2Keys) next(fn string) string {
	k.n[fn]++
	return fmt.Sprintf("%s#%d", fn, k.n[fn])
}

// c2SpatialTypes returns the spatial query types and their iterator types (as FILTER-AGREE
// discovers them), and the Compile methods of the query types.
func (c *Ctx) c2SpatialTypes() (typesOut []*types.Named, compiles []*types.Func) {
	for _, fp := range c.gFilterPairs() {
		typesOut = append(typesOut, fp.query, fp.iter)
		if m := gMethod(fp.query, "Compile"); m != nil {
			compiles = append(compiles, m)
		}
	}
	return typesOut, compiles
}

// c2StaticClosure returns the module functions reachable from roots through static calls
// (function literals included; calls through interfaces and function values are not followed).
func (c *Ctx) c2StaticClosure(roots []*types.Func) map[*types.Func]bool {
	seen := map[*types.Func]bool{}
	var visit func(f *types.Func)
	visit = func(f *types.Func) {
		f = f.Origin()
		if seen[f] {
			return
		}
		fd, p := c.Decl(f)
		if fd == nil || fd.Body == nil {
			return
		}
		for _, file := range p.Syntax {
			if file.Pos() <= fd.Pos() && fd.End() <= file.End() && c.IsGenerated(file) {
				return
			}
		}
		seen[f] = true
		ast.Inspect(fd.Body, func(n ast.Node) bool {
			if call, ok := n.(*ast.CallExpr); ok {
				if g := calleeFunc(p.TypesInfo, call); g != nil {
					visit(g)
				}
			}
			return true
		})
	}
	for _, r := range roots {
		visit(r)
	}
	return seen
}

// c2Mentions reports whether the expression mentions the object.
func c2Mentions(info *types.Info, e ast.Node, obj types.Object) bool {
	if e == nil || obj == nil {
		return false
	}
	found := false
	ast.Inspect(e, func(n ast.Node) bool {
		if id, ok := n.(*ast.Ident); ok && info.ObjectOf(id) == obj {
			found = true
		}
		return !found
	})
	return found
}

// c2LocalVar returns the variable behind an identifier if it is a local variable, parameter or
// named result (not a field, not a package-level variable).
func c2LocalVar(info *types.Info, p *packages.Package, e ast.Expr) *types.Var {
	id, ok := ast.Unparen(e).(*ast.Ident)
	if !ok || id.Name == "_" {
		return nil
	}
	v, ok := info.ObjectOf(id).(*types.Var)
	if !ok || v.IsField() || v.Parent() == nil || v.Parent() == p.Types.Scope() || v.Parent() == types.Universe {
		return nil
	}
	return v
}

// c2FieldsOnPath returns the struct fields a selector expression goes through: the implicit
// embedded fields and, for a field selection, the selected field (last, with final=true).
func c2FieldsOnPath(info *types.Info, sel *ast.SelectorExpr) (fields []*types.Var, finalIsField bool) {
	s := info.Selections[sel]
	if s == nil {
		return nil, false
	}
	t := s.Recv()
	idx := s.Index()
	for i, ix := range idx {
		last := i == len(idx)-1
		if last && s.Kind() != types.FieldVal {
			break
		}
		for {
			if pt, ok := t.Underlying().(*types.Pointer); ok {
				t = pt.Elem()
				continue
			}
			break
		}
		st, ok := t.Underlying().(*types.Struct)
		if !ok || ix >= st.NumFields() {
			break
		}
		f := st.Field(ix)
		fields = append(fields, f)
		t = f.Type()
		if last {
			finalIsField = true
		}
	}
	return fields, finalIsField
}

// c2IsS2 reports whether t (through pointers) is the named type s2.<name>.
func c2IsS2(t types.Type, name string) bool {
	return t != nil && isNamed(t, c2S2Path, name)
}

// c2SortedFuncs orders functions by declaration position.
func (c *Ctx) c2SortedFuncs(set map[*types.Func]bool) []*types.Func {
	var out []*types.Func
	for f := range set {
		out = append(out, f)
	}
	sort.Slice(out, func(i, j int) bool {
		a, _ := c.Decl(out[i])
		b, _ := c.Decl(out[j])
		pa, pb := c.Fset.Position(a.Pos()), c.Fset.Position(b.Pos())
		if pa.Filename != pb.Filename {
			return pa.Filename < pb.Filename
		}
		return pa.Offset < pb.Offset
	})
	return out
}

// c2InFile reports whether pos lies in a file of package p whose base name is one of names.
func (c *Ctx) c2InFile(pos token.Pos, names ...string) bool {
	f := c.Fset.PositionFor(pos, false).Filename
	for _, n := range names {
		if len(f) >= len(n) && f[len(f)-len(n):] == n {
			return true
		}
	}
	return false
}
