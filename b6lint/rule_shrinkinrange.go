package main

import (
	"fmt"
	"go/ast"
	"go/token"
	"go/types"

	"golang.org/x/tools/go/cfg"
)

// SHRINK-IN-RANGE (C39): `for i, x := range S` evaluates S once; a body that re-assigns S to
// a shorter slice built from the loop index (`S = append(S[:i], S[i+1:]...)`, slices.Delete(S,
// i, …), `S = S[:i]`) and then goes on iterating walks the old header over shifted elements:
// the element after a removed one is skipped and the stale tail is visited again (which can
// slice out of range).
//
// Slots, by shape in every module package (function literals included): a range statement
// with a key variable over a slice-typed operand S, and inside its body an assignment whose
// left side is S (structurally equal after resolving identifiers) and whose right side
// slices S (or calls slices.Delete on it) with a bound that depends on the key.
// For the methods of b6.Tags the slot is wider so that a repaired method stays an instance:
// every method that ranges over its receiver and assigns it.
//
// Obligation per shrink: (a) on the control-flow graph every path from the assignment leaves
// the loop (break out of it, return, panic) before the next iteration, or (b) the assignment
// is guarded, inside the loop body and outside any inner loop, by `if elem == v` where elem
// is derived from the range variables and v is invariant in the loop (no identifier of v is
// assigned in the loop body, no calls): under the property's distinct-keys precondition such
// a guard fires at most once (this is how RemoveTag differs from RemoveTags, whose guard
// compares with the variable of an inner loop).
// Props C39 only for methods of b6.Tags; the same shape elsewhere is reported as info.
func init() {
	register(&Rule{
		Name:  "SHRINK-IN-RANGE",
		IR:    "cfg",
		Props: []string{"C39"},
		// b6.(*Tags).RemoveTag is an instance before and after the repair of RemoveTags (which is
		// a second instance today and stays one if it is repaired by collect-then-filter).
		Floor: 1,
		Doc: "a range over a slice whose body re-assigns that slice to a shorter one built from the loop index either leaves the loop " +
			"right after the shrink or guards it by comparing the element with a loop-invariant value only",
		Run: runShrinkInRange,
	})
}

func fIsSliceType(t types.Type) bool {
	if t == nil {
		return false
	}
	_, ok := t.Underlying().(*types.Slice)
	return ok
}

// fShrinks finds the assignments inside body that shorten the ranged operand using the key.
func fShrinks(info *types.Info, rs *ast.RangeStmt, keyDeps map[types.Object]bool) []*ast.AssignStmt {
	var out []*ast.AssignStmt
	inspectShallow(rs.Body, func(n ast.Node) bool {
		as, ok := n.(*ast.AssignStmt)
		if !ok || as.Tok != token.ASSIGN || len(as.Lhs) != len(as.Rhs) {
			return true
		}
		for i, l := range as.Lhs {
			if !sameExpr(info, l, rs.X) {
				continue
			}
			uses := false
			ast.Inspect(as.Rhs[i], func(m ast.Node) bool {
				switch e := m.(type) {
				case *ast.SliceExpr:
					if sameExpr(info, e.X, rs.X) {
						for _, b := range []ast.Expr{e.Low, e.High, e.Max} {
							if b != nil && fMentions(info, b, keyDeps) {
								uses = true
							}
						}
					}
				case *ast.CallExpr:
					if f := calleeFunc(info, e); f != nil && f.Pkg() != nil && f.Pkg().Path() == "slices" &&
						(f.Name() == "Delete" || f.Name() == "DeleteFunc") && len(e.Args) >= 2 && sameExpr(info, e.Args[0], rs.X) {
						for _, b := range e.Args[1:] {
							if fMentions(info, b, keyDeps) {
								uses = true
							}
						}
					}
				}
				return true
			})
			if uses {
				out = append(out, as)
			}
		}
		return true
	})
	return out
}

// fContinuesIterating searches the CFG from the node after `from` inside the loop of rs and
// returns a witness path when the loop head can be reached again.
func fContinuesIterating(c *Ctx, g *cfg.CFG, rs *ast.RangeStmt, from nodeLoc) []string {
	inLoop := func(b *cfg.Block) bool {
		if b.Stmt == nil {
			return false
		}
		if b.Stmt == ast.Stmt(rs) {
			return b.Kind == cfg.KindRangeBody || b.Kind == cfg.KindRangeLoop
		}
		return rs.Body.Pos() <= b.Stmt.Pos() && b.Stmt.End() <= rs.Body.End()
	}
	type item struct {
		b     *cfg.Block
		trail []string
	}
	seen := map[*cfg.Block]bool{from.b: true}
	work := []item{{from.b, nil}}
	for len(work) > 0 {
		it := work[0]
		work = work[1:]
		for _, s := range it.b.Succs {
			if s.Kind == cfg.KindRangeLoop && s.Stmt == ast.Stmt(rs) {
				return append(append([]string(nil), it.trail...), "back to the loop head at "+c.Position(rs.Pos())+" (next iteration over the old slice header)")
			}
			if seen[s] || !inLoop(s) {
				continue
			}
			seen[s] = true
			t := it.trail
			if len(s.Nodes) > 0 {
				t = append(append([]string(nil), it.trail...), fmt.Sprintf("%s (%s)", c.Position(s.Nodes[0].Pos()), s.Kind))
			}
			work = append(work, item{s, t})
		}
	}
	return nil
}

// fGuards decides whether an expression pair is "element == loop-invariant value".
type fGuards struct {
	info     *types.Info
	assigned map[types.Object]bool // assigned somewhere in the loop body (inner loop variables included)
	elemDeps map[types.Object]bool // derived from the range variables
}

func (gd *fGuards) invariant(e ast.Expr) bool {
	ok := true
	ast.Inspect(e, func(n ast.Node) bool {
		switch x := n.(type) {
		case *ast.CallExpr, *ast.FuncLit:
			ok = false
		case *ast.Ident:
			if o, isVar := gd.info.ObjectOf(x).(*types.Var); isVar && (gd.assigned[o] || gd.elemDeps[o]) {
				ok = false
			}
		}
		return ok
	})
	return ok
}

func (gd *fGuards) eq(l, r ast.Expr) bool {
	return fMentions(gd.info, l, gd.elemDeps) && gd.invariant(r) || fMentions(gd.info, r, gd.elemDeps) && gd.invariant(l)
}

// fInvariantGuard looks for a guard `elem == v` (v invariant in the loop) that every path of
// one iteration must pass on its "equal" edge to reach the shrink, with no inner loop around
// the shrink. Two recognisers: syntax (enclosing if-then / switch case) and the CFG (the
// shrink is unreachable from the start of the body once the "equal" edge of the comparison
// is removed — this covers `if elem != v { continue }` before the shrink).
func fInvariantGuard(info *types.Info, g *cfg.CFG, rs *ast.RangeStmt, as *ast.AssignStmt, loc nodeLoc, elemDeps map[types.Object]bool) (string, bool) {
	chain := enclosing(rs.Body, as)
	gd := &fGuards{info, fAssignedIn(info, rs.Body), elemDeps}
	for _, n := range chain[1:] {
		switch n.(type) {
		case *ast.ForStmt, *ast.RangeStmt:
			return "an inner loop encloses the shrink, so it can run several times per element", false
		}
	}
	for i := len(chain) - 1; i >= 0; i-- {
		switch x := chain[i].(type) {
		case *ast.CaseClause:
			// switch elem { case v: … } and switch { case elem == v: … }: every alternative of the clause must qualify
			if i < 2 || len(x.List) == 0 {
				continue
			}
			sw, ok := chain[i-2].(*ast.SwitchStmt)
			if !ok {
				continue
			}
			all := true
			for _, e := range x.List {
				if sw.Tag != nil {
					all = all && gd.eq(sw.Tag, e)
				} else if b, ok := ast.Unparen(e).(*ast.BinaryExpr); ok && b.Op == token.EQL {
					all = all && gd.eq(b.X, b.Y)
				} else {
					all = false
				}
			}
			if all {
				return "case " + types.ExprString(x.List[0]), true
			}
		case *ast.IfStmt:
			// the assignment must be in the then-branch
			if !(x.Body.Pos() <= as.Pos() && as.End() <= x.Body.End()) {
				continue
			}
			var conj []ast.Expr
			var split func(e ast.Expr)
			split = func(e ast.Expr) {
				if b, ok := ast.Unparen(e).(*ast.BinaryExpr); ok && b.Op == token.LAND {
					split(b.X)
					split(b.Y)
					return
				}
				conj = append(conj, ast.Unparen(e))
			}
			split(x.Cond)
			for _, cj := range conj {
				if b, ok := cj.(*ast.BinaryExpr); ok && b.Op == token.EQL && gd.eq(b.X, b.Y) {
					return types.ExprString(cj), true
				}
			}
		}
	}
	// CFG recogniser
	var body *cfg.Block
	for _, b := range g.Blocks {
		if b.Kind == cfg.KindRangeBody && b.Stmt == ast.Stmt(rs) {
			body = b
		}
	}
	if body != nil {
		for _, b := range g.Blocks {
			if !b.Live || len(b.Succs) != 2 || len(b.Nodes) == 0 {
				continue
			}
			last := b.Nodes[len(b.Nodes)-1]
			if last.Pos() < rs.Body.Pos() || last.End() > rs.Body.End() {
				continue
			}
			be, ok := last.(*ast.BinaryExpr)
			if !ok || (be.Op != token.EQL && be.Op != token.NEQ) || !gd.eq(be.X, be.Y) {
				continue
			}
			eqEdge := b.Succs[0]
			if be.Op == token.NEQ {
				eqEdge = b.Succs[1]
			}
			// is the shrink reachable within one iteration without taking b -> eqEdge?
			seen := map[*cfg.Block]bool{body: true}
			work := []*cfg.Block{body}
			reached := body == loc.b
			for len(work) > 0 && !reached {
				x := work[0]
				work = work[1:]
				for _, s := range x.Succs {
					if x == b && s == eqEdge || seen[s] || s.Kind == cfg.KindRangeLoop && s.Stmt == ast.Stmt(rs) {
						continue
					}
					seen[s] = true
					if s == loc.b {
						reached = true
					}
					work = append(work, s)
				}
			}
			if !reached {
				return types.ExprString(be) + " (the shrink is reachable only on its equal edge)", true
			}
		}
	}
	return "no guard compares the element with a value that is invariant in the loop", false
}

func runShrinkInRange(c *Ctx) []Obligation {
	var out []Obligation
	for _, p := range c.SortedPkgs() {
		info := p.TypesInfo
		for _, fd := range c.FuncDecls(p) {
			name := c.FuncName(p, fd)
			recv := fRecvNamed(info, fd)
			isTags := recv != nil && fIsNamed(recv, "", "Tags")
			var recvObj types.Object
			if fd.Recv != nil && len(fd.Recv.List) > 0 && len(fd.Recv.List[0].Names) > 0 {
				recvObj = info.Defs[fd.Recv.List[0].Names[0]]
			}
			ord := 0
			found := 0
			// one CFG per function unit (declaration or literal)
			type unit struct {
				body *ast.BlockStmt
				g    *cfg.CFG
			}
			units := []*unit{{body: fd.Body}}
			ast.Inspect(fd.Body, func(n ast.Node) bool {
				if fl, ok := n.(*ast.FuncLit); ok {
					units = append(units, &unit{body: fl.Body})
				}
				return true
			})
			for _, u := range units {
				var ranges []*ast.RangeStmt
				inspectShallow(u.body, func(n ast.Node) bool {
					if rs, ok := n.(*ast.RangeStmt); ok && fIsSliceType(info.TypeOf(rs.X)) {
						ranges = append(ranges, rs)
					}
					return true
				})
				for _, rs := range ranges {
					keyID, _ := rs.Key.(*ast.Ident)
					if keyID == nil || keyID.Name == "_" {
						continue
					}
					keyObj := info.ObjectOf(keyID)
					var valObj types.Object
					if v, ok := rs.Value.(*ast.Ident); ok && v.Name != "_" {
						valObj = info.ObjectOf(v)
					}
					keyDeps := fDependents(info, rs.Body, keyObj)
					elemDeps := fDependents(info, rs.Body, keyObj, valObj)
					for _, as := range fShrinks(info, rs, keyDeps) {
						ord++
						found++
						ob := Obligation{Key: fmt.Sprintf("%s#%d", name, ord), Pos: c.Position(as.Pos())}
						if u.g == nil {
							u.g = newCFG(info, u.body)
						}
						what := fmt.Sprintf("range over %s at %s: %s", types.ExprString(rs.X), c.Position(rs.Pos()), nodeText(c.Fset, as))
						loc, ok := findNode(u.g, as)
						switch {
						case !ok:
							ob.Status, ob.Detail = Undecided, what+": assignment not found in the control-flow graph"
						default:
							w := fContinuesIterating(c, u.g, rs, loc)
							if w == nil {
								ob.Status, ob.Detail = OK, what+" is followed by leaving the loop on every path"
							} else if g, ok := fInvariantGuard(info, u.g, rs, as, loc, elemDeps); ok {
								ob.Status = OK
								ob.Detail = what + " keeps iterating, accepted: guarded by `" + g + "` against a loop-invariant value (fires at most once when keys are distinct)"
							} else {
								ob.Status = Violation
								ob.Detail = what + " shortens the slice and keeps iterating over the old header (" + g + "): the element after each removed one is skipped and stale tail elements are revisited"
								ob.Path = w
							}
						}
						if !isTags {
							ob.Detail = "[" + ob.Status + " outside b6.Tags] " + ob.Detail
							ob.Status = Info
						}
						out = append(out, ob)
					}
				}
			}
			// anchor for b6.Tags: a method that ranges over its receiver and assigns it, without the shape
			if isTags && found == 0 && recvObj != nil {
				isRecvDeref := func(e ast.Expr) bool {
					e = ast.Unparen(e)
					if st, ok := e.(*ast.StarExpr); ok {
						e = ast.Unparen(st.X)
					}
					id, ok := e.(*ast.Ident)
					return ok && info.ObjectOf(id) == recvObj
				}
				var rng *ast.RangeStmt
				assigns := false
				inspectShallow(fd.Body, func(n ast.Node) bool {
					switch x := n.(type) {
					case *ast.RangeStmt:
						if rng == nil && isRecvDeref(x.X) {
							rng = x
						}
					case *ast.AssignStmt:
						for _, l := range x.Lhs {
							if _, isStar := ast.Unparen(l).(*ast.StarExpr); isStar && isRecvDeref(l) {
								assigns = true
							}
						}
					}
					return true
				})
				if rng != nil && assigns {
					out = append(out, Obligation{Key: name + "#1", Pos: c.Position(rng.Pos()), Status: OK,
						Detail: "ranges over the receiver and assigns it, but no assignment inside the loop body shortens it by the loop index"})
				}
			}
		}
	}
	return out
}
