package main

import (
	"fmt"
	"go/ast"
	"go/token"
	"go/types"

	"golang.org/x/tools/go/cfg"
)

// SHRINK-IN-RANGE (C39): `for i, x := range S` evaluates S once; a body that re-assigns S to
// a shorter slice built from the loop index (`S = append(S[:i], S[i+1:]...)`, slices.Delete(S,
// i, …), `S = S[:i]`) and then goes on iterating walks the old header over shifted elements:
// the element after a removed one is skipped and the stale tail is visited again (which can
// slice out of range).
//
// Slots, by shape in every module package (function literals included): a range statement
// with a key variable over a slice-typed operand S, and inside its body an assignment whose
// left side is S (structurally equal after resolving identifiers) and whose right side
// slices S (or calls slices.Delete on it) with a bound that depends on the key.
// For the methods of b6.Tags the slot is wider so that a repaired method stays an instance:
// every method that ranges over its receiver and assigns it.
//
// Obligation per shrink: (a) on the control-flow graph every path from the assignment leaves
// the loop (break out of it, return, panic) before the next iteration, or (b) the assignment
// is guarded, inside the loop body and outside any inner loop, by `if elem == v` where elem
// is derived from the range variables and v is invariant in the loop (no identifier of v is
// assigned in the loop body, no calls): under the property's distinct-keys precondition such
// a guard fires at most once (this is how RemoveTag differs from RemoveTags, whose guard
// compares with the variable of an inner loop).
//
// Index loops. `for …; i < len(S); i++` (any comparison of a variable with len(S), the variable
// incremented in the post statement or the body) re-reads len(S), so there is no stale tail, but
// after `S = append(S[:i], S[i+1:]...)` position i holds the next element: a path from the
// shrink that reaches an increment of i skips it (the second of two adjacent matches survives).
// Obligation per shrink in such a loop: on the control-flow graph every path from the shrink
// decrements i (i--, i -= c, i = i - c) before the next increment, or comes back to the loop
// condition without incrementing (a loop without post statement that only increments on the
// keep branch), or leaves the loop; or guard (b) applies.
// Props C39 only for methods of b6.Tags; the same shape elsewhere is reported as info.
func init() {
	register(&Rule{
		Name:  "SHRINK-IN-RANGE",
		IR:    "cfg",
		Props: []string{"C39"},
		// b6.(*Tags).RemoveTag is an instance before and after the repair of RemoveTags (which is
		// a second instance today and stays one if it is repaired by collect-then-filter).
		Floor: 1,
		Doc: "a range over a slice whose body re-assigns that slice to a shorter one built from the loop index either leaves the loop " +
			"right after the shrink or guards it by comparing the element with a loop-invariant value only; in a three-clause index loop " +
			"every path from such a shrink steps the index back, re-tests the same position or leaves the loop (or the same guard applies)",
		Run: runShrinkInRange,
	})
}

func fIsSliceType(t types.Type) bool {
	if t == nil {
		return false
	}
	_, ok := t.Underlying().(*types.Slice)
	return ok
}

// fShrinks finds the assignments inside body that shorten the ranged operand using the key.
func fShrinks(info *types.Info, rs *fShrinkLoop, keyDeps map[types.Object]bool) []*ast.AssignStmt {
	var out []*ast.AssignStmt
	inspectShallow(rs.Body, func(n ast.Node) bool {
		as, ok := n.(*ast.AssignStmt)
		if !ok || as.Tok != token.ASSIGN || len(as.Lhs) != len(as.Rhs) {
			return true
		}
		for i, l := range as.Lhs {
			if !sameExpr(info, l, rs.X) {
				continue
			}
			uses := false
			ast.Inspect(as.Rhs[i], func(m ast.Node) bool {
				switch e := m.(type) {
				case *ast.SliceExpr:
					if sameExpr(info, e.X, rs.X) {
						for _, b := range []ast.Expr{e.Low, e.High, e.Max} {
							if b != nil && fMentions(info, b, keyDeps) {
								uses = true
							}
						}
					}
				case *ast.CallExpr:
					if f := calleeFunc(info, e); f != nil && f.Pkg() != nil && f.Pkg().Path() == "slices" &&
						(f.Name() == "Delete" || f.Name() == "DeleteFunc") && len(e.Args) >= 2 && sameExpr(info, e.Args[0], rs.X) {
						for _, b := range e.Args[1:] {
							if fMentions(info, b, keyDeps) {
								uses = true
							}
						}
					}
				}
				return true
			})
			if uses {
				out = append(out, as)
			}
		}
		return true
	})
	return out
}

// fContinuesIterating searches the CFG from the node after `from` inside the loop of rs and
// returns a witness path when the loop head can be reached again.
func fContinuesIterating(c *Ctx, g *cfg.CFG, rs *ast.RangeStmt, from nodeLoc) []string {
	inLoop := func(b *cfg.Block) bool {
		if b.Stmt == nil {
			return false
		}
		if b.Stmt == ast.Stmt(rs) {
			return b.Kind == cfg.KindRangeBody || b.Kind == cfg.KindRangeLoop
		}
		return rs.Body.Pos() <= b.Stmt.Pos() && b.Stmt.End() <= rs.Body.End()
	}
	type item struct {
		b     *cfg.Block
		trail []string
	}
	seen := map[*cfg.Block]bool{from.b: true}
	work := []item{{from.b, nil}}
	for len(work) > 0 {
		it := work[0]
		work = work[1:]
		for _, s := range it.b.Succs {
			if s.Kind == cfg.KindRangeLoop && s.Stmt == ast.Stmt(rs) {
				return append(append([]string(nil), it.trail...), "back to the loop head at "+c.Position(rs.Pos())+" (next iteration over the old slice header)")
			}
			if seen[s] || !inLoop(s) {
				continue
			}
			seen[s] = true
			t := it.trail
			if len(s.Nodes) > 0 {
				t = append(append([]string(nil), it.trail...), fmt.Sprintf("%s (%s)", c.Position(s.Nodes[0].Pos()), s.Kind))
			}
			work = append(work, item{s, t})
		}
	}
	return nil
}

// fGuards decides whether an expression pair is "element == loop-invariant value".
type fGuards struct {
	info     *types.Info
	assigned map[types.Object]bool // assigned somewhere in the loop body (inner loop variables included)
	elemDeps map[types.Object]bool // derived from the range variables
}

func (gd *fGuards) invariant(e ast.Expr) bool {
	ok := true
	ast.Inspect(e, func(n ast.Node) bool {
		switch x := n.(type) {
		case *ast.CallExpr, *ast.FuncLit:
			ok = false
		case *ast.Ident:
			if o, isVar := gd.info.ObjectOf(x).(*types.Var); isVar && (gd.assigned[o] || gd.elemDeps[o]) {
				ok = false
			}
		}
		return ok
	})
	return ok
}

func (gd *fGuards) eq(l, r ast.Expr) bool {
	return fMentions(gd.info, l, gd.elemDeps) && gd.invariant(r) || fMentions(gd.info, r, gd.elemDeps) && gd.invariant(l)
}

// fInvariantGuard looks for a guard `elem == v` (v invariant in the loop) that every path of
// one iteration must pass on its "equal" edge to reach the shrink, with no inner loop around
// the shrink. Two recognisers: syntax (enclosing if-then / switch case) and the CFG (the
// shrink is unreachable from the start of the body once the "equal" edge of the comparison
// is removed — this covers `if elem != v { continue }` before the shrink).
func fInvariantGuard(info *types.Info, g *cfg.CFG, rs *fShrinkLoop, as *ast.AssignStmt, loc nodeLoc, elemDeps map[types.Object]bool) (string, bool) {
	chain := enclosing(rs.Body, as)
	gd := &fGuards{info, fAssignedIn(info, rs.Body), elemDeps}
	for _, n := range chain[1:] {
		switch n.(type) {
		case *ast.ForStmt, *ast.RangeStmt:
			return "an inner loop encloses the shrink, so it can run several times per element", false
		}
	}
	for i := len(chain) - 1; i >= 0; i-- {
		switch x := chain[i].(type) {
		case *ast.CaseClause:
			// switch elem { case v: … } and switch { case elem == v: … }: every alternative of the clause must qualify
			if i < 2 || len(x.List) == 0 {
				continue
			}
			sw, ok := chain[i-2].(*ast.SwitchStmt)
			if !ok {
				continue
			}
			all := true
			for _, e := range x.List {
				if sw.Tag != nil {
					all = all && gd.eq(sw.Tag, e)
				} else if b, ok := ast.Unparen(e).(*ast.BinaryExpr); ok && b.Op == token.EQL {
					all = all && gd.eq(b.X, b.Y)
				} else {
					all = false
				}
			}
			if all {
				return "case " + types.ExprString(x.List[0]), true
			}
		case *ast.IfStmt:
			// the assignment must be in the then-branch
			if !(x.Body.Pos() <= as.Pos() && as.End() <= x.Body.End()) {
				continue
			}
			var conj []ast.Expr
			var split func(e ast.Expr)
			split = func(e ast.Expr) {
				if b, ok := ast.Unparen(e).(*ast.BinaryExpr); ok && b.Op == token.LAND {
					split(b.X)
					split(b.Y)
					return
				}
				conj = append(conj, ast.Unparen(e))
			}
			split(x.Cond)
			for _, cj := range conj {
				if b, ok := cj.(*ast.BinaryExpr); ok && b.Op == token.EQL && gd.eq(b.X, b.Y) {
					return types.ExprString(cj), true
				}
			}
		}
	}
	// CFG recogniser
	var body *cfg.Block
	for _, b := range g.Blocks {
		if (b.Kind == cfg.KindRangeBody || b.Kind == cfg.KindForBody) && b.Stmt == rs.Stmt {
			body = b
		}
	}
	if body != nil {
		for _, b := range g.Blocks {
			if !b.Live || len(b.Succs) != 2 || len(b.Nodes) == 0 {
				continue
			}
			last := b.Nodes[len(b.Nodes)-1]
			if last.Pos() < rs.Body.Pos() || last.End() > rs.Body.End() {
				continue
			}
			be, ok := last.(*ast.BinaryExpr)
			if !ok || (be.Op != token.EQL && be.Op != token.NEQ) || !gd.eq(be.X, be.Y) {
				continue
			}
			eqEdge := b.Succs[0]
			if be.Op == token.NEQ {
				eqEdge = b.Succs[1]
			}
			// is the shrink reachable within one iteration without taking b -> eqEdge?
			seen := map[*cfg.Block]bool{body: true}
			work := []*cfg.Block{body}
			reached := body == loc.b
			for len(work) > 0 && !reached {
				x := work[0]
				work = work[1:]
				for _, s := range x.Succs {
					if x == b && s == eqEdge || seen[s] || rs.isHead(s) {
						continue
					}
					seen[s] = true
					if s == loc.b {
						reached = true
					}
					work = append(work, s)
				}
			}
			if !reached {
				return types.ExprString(be) + " (the shrink is reachable only on its equal edge)", true
			}
		}
	}
	return "no guard compares the element with a value that is invariant in the loop", false
}

// fShrinkLoop describes a loop that walks the slice X by an index: a range statement with a
// key, or `for …; i < len(X); …` with an increment of i.
type fShrinkLoop struct {
	Stmt ast.Stmt
	Body *ast.BlockStmt
	X    ast.Expr
	rs   *ast.RangeStmt // nil for a three-clause loop
	idx  types.Object   // range key / index variable
	val  types.Object   // range value variable, or nil
}

func (l *fShrinkLoop) isHead(b *cfg.Block) bool {
	return b.Stmt == l.Stmt && (b.Kind == cfg.KindRangeLoop || b.Kind == cfg.KindForLoop || b.Kind == cfg.KindForPost)
}

func (l *fShrinkLoop) inLoop(b *cfg.Block) bool {
	if b.Stmt == nil {
		return false
	}
	if b.Stmt == l.Stmt {
		return b.Kind == cfg.KindRangeBody || b.Kind == cfg.KindForBody || l.isHead(b)
	}
	return l.Body.Pos() <= b.Stmt.Pos() && b.Stmt.End() <= l.Body.End()
}

// fIndexLoop recognises `for …; i < len(X); …` (also len(X) > i, i != len(X), i <= len(X)-1) over a
// slice-typed X whose index variable is incremented in the post statement or the body.
func fIndexLoop(info *types.Info, fs *ast.ForStmt) *fShrinkLoop {
	be, ok := ast.Unparen(fs.Cond).(*ast.BinaryExpr)
	if !ok {
		return nil
	}
	switch be.Op {
	case token.LSS, token.LEQ, token.GTR, token.GEQ, token.NEQ:
	default:
		return nil
	}
	var idx types.Object
	var x ast.Expr
	for _, pr := range [][2]ast.Expr{{be.X, be.Y}, {be.Y, be.X}} {
		id := fIdentOf(pr[0])
		if id == nil {
			continue
		}
		ast.Inspect(pr[1], func(n ast.Node) bool {
			if call, ok := n.(*ast.CallExpr); ok && isBuiltin(info, call, "len") && len(call.Args) == 1 && fIsSliceType(info.TypeOf(call.Args[0])) {
				x = call.Args[0]
			}
			return x == nil
		})
		if x != nil {
			if v, ok := info.ObjectOf(id).(*types.Var); ok {
				idx = v
			}
			break
		}
	}
	if idx == nil || x == nil {
		return nil
	}
	incremented := false
	ast.Inspect(fs, func(n ast.Node) bool {
		if st, ok := n.(ast.Stmt); ok && fStepOf(info, st, idx) > 0 {
			incremented = true
		}
		return !incremented
	})
	if !incremented {
		return nil
	}
	return &fShrinkLoop{Stmt: fs, Body: fs.Body, X: x, idx: idx}
}

// fStepOf: +1 when the statement increments the variable (i++, i += c, i = i + c), -1 when it
// decrements it (i--, i -= c, i = i - c), 0 otherwise.
func fStepOf(info *types.Info, st ast.Stmt, v types.Object) int {
	isV := func(e ast.Expr) bool {
		id := fIdentOf(e)
		return id != nil && info.ObjectOf(id) == v
	}
	switch x := st.(type) {
	case *ast.IncDecStmt:
		if isV(x.X) {
			if x.Tok == token.INC {
				return 1
			}
			return -1
		}
	case *ast.AssignStmt:
		if len(x.Lhs) != 1 || len(x.Rhs) != 1 || !isV(x.Lhs[0]) {
			return 0
		}
		switch x.Tok {
		case token.ADD_ASSIGN:
			return 1
		case token.SUB_ASSIGN:
			return -1
		case token.ASSIGN:
			if be, ok := ast.Unparen(x.Rhs[0]).(*ast.BinaryExpr); ok && isV(be.X) {
				switch be.Op {
				case token.ADD:
					return 1
				case token.SUB:
					return -1
				}
			}
		}
	}
	return 0
}

// fStepsPastSlid searches the CFG from the node after the shrink: a path that reaches an
// increment of the index (the post statement) without first decrementing it, re-testing the
// loop condition or leaving the loop steps over the element that slid into the freed position.
func fStepsPastSlid(c *Ctx, info *types.Info, g *cfg.CFG, l *fShrinkLoop, from nodeLoc) []string {
	type item struct {
		b     *cfg.Block
		i     int
		trail []string
	}
	seen := map[*cfg.Block]bool{}
	work := []item{{from.b, from.i + 1, nil}}
	for len(work) > 0 {
		it := work[0]
		work = work[1:]
		stopped := false
		for i := it.i; i < len(it.b.Nodes); i++ {
			st, ok := it.b.Nodes[i].(ast.Stmt)
			if !ok {
				continue
			}
			switch fStepOf(info, st, l.idx) {
			case 1:
				txt := nodeText(c.Fset, st)
				if id, ok := st.(*ast.IncDecStmt); ok {
					txt = types.ExprString(id.X) + id.Tok.String()
				}
				return append(append([]string(nil), it.trail...), fmt.Sprintf("reaches %s %s: the index moves on although position %s now holds the next element", c.Position(st.Pos()), txt, l.idx.Name()))
			case -1:
				stopped = true
			}
			if stopped {
				break
			}
		}
		if stopped {
			continue
		}
		for _, s := range it.b.Succs {
			if seen[s] || !l.inLoop(s) {
				continue
			}
			if s.Kind == cfg.KindForLoop && s.Stmt == l.Stmt {
				continue // the condition is tested again for the same position
			}
			seen[s] = true
			t := it.trail
			if len(s.Nodes) > 0 {
				t = append(append([]string(nil), it.trail...), fmt.Sprintf("%s (%s)", c.Position(s.Nodes[0].Pos()), s.Kind))
			}
			work = append(work, item{s, 0, t})
		}
	}
	return nil
}

func runShrinkInRange(c *Ctx) []Obligation {
	var out []Obligation
	for _, p := range c.SortedPkgs() {
		info := p.TypesInfo
		for _, fd := range c.FuncDecls(p) {
			name := c.FuncName(p, fd)
			recv := fRecvNamed(info, fd)
			isTags := recv != nil && fIsNamed(recv, "", "Tags")
			var recvObj types.Object
			if fd.Recv != nil && len(fd.Recv.List) > 0 && len(fd.Recv.List[0].Names) > 0 {
				recvObj = info.Defs[fd.Recv.List[0].Names[0]]
			}
			ord := 0
			found := 0
			// one CFG per function unit (declaration or literal)
			type unit struct {
				body *ast.BlockStmt
				g    *cfg.CFG
			}
			units := []*unit{{body: fd.Body}}
			ast.Inspect(fd.Body, func(n ast.Node) bool {
				if fl, ok := n.(*ast.FuncLit); ok {
					units = append(units, &unit{body: fl.Body})
				}
				return true
			})
			for _, u := range units {
				var loops []*fShrinkLoop
				inspectShallow(u.body, func(n ast.Node) bool {
					switch x := n.(type) {
					case *ast.RangeStmt:
						keyID, _ := x.Key.(*ast.Ident)
						if !fIsSliceType(info.TypeOf(x.X)) || keyID == nil || keyID.Name == "_" {
							return true
						}
						l := &fShrinkLoop{Stmt: x, Body: x.Body, X: x.X, rs: x, idx: info.ObjectOf(keyID)}
						if v, ok := x.Value.(*ast.Ident); ok && v.Name != "_" {
							l.val = info.ObjectOf(v)
						}
						loops = append(loops, l)
					case *ast.ForStmt:
						if x.Cond != nil {
							if l := fIndexLoop(info, x); l != nil {
								loops = append(loops, l)
							}
						}
					}
					return true
				})
				for _, rs := range loops {
					keyDeps := fDependents(info, rs.Body, rs.idx)
					elemDeps := fDependents(info, rs.Body, rs.idx, rs.val)
					for _, as := range fShrinks(info, rs, keyDeps) {
						ord++
						found++
						ob := Obligation{Key: fmt.Sprintf("%s#%d", name, ord), Pos: c.Position(as.Pos())}
						if u.g == nil {
							u.g = newCFG(info, u.body)
						}
						kind := "range over"
						if rs.rs == nil {
							kind = "index loop over"
						}
						what := fmt.Sprintf("%s %s at %s: %s", kind, types.ExprString(rs.X), c.Position(rs.Stmt.Pos()), nodeText(c.Fset, as))
						loc, ok := findNode(u.g, as)
						switch {
						case !ok:
							ob.Status, ob.Detail = Undecided, what+": assignment not found in the control-flow graph"
						case rs.rs == nil:
							w := fStepsPastSlid(c, info, u.g, rs, loc)
							if w == nil {
								ob.Status, ob.Detail = OK, what+": every path from the shrink steps the index back, tests the same position again or leaves the loop"
							} else if g, ok := fInvariantGuard(info, u.g, rs, as, loc, elemDeps); ok {
								ob.Status = OK
								ob.Detail = what + " moves on to the next index, accepted: guarded by `" + g + "` against a loop-invariant value (fires at most once when keys are distinct)"
							} else {
								ob.Status = Violation
								ob.Detail = what + " removes position " + rs.idx.Name() + " and then increments " + rs.idx.Name() + " (" + g + "): the element that slid into the freed position is never examined, so the second of two adjacent matches survives"
								ob.Path = w
							}
						default:
							w := fContinuesIterating(c, u.g, rs.rs, loc)
							if w == nil {
								ob.Status, ob.Detail = OK, what+" is followed by leaving the loop on every path"
							} else if g, ok := fInvariantGuard(info, u.g, rs, as, loc, elemDeps); ok {
								ob.Status = OK
								ob.Detail = what + " keeps iterating, accepted: guarded by `" + g + "` against a loop-invariant value (fires at most once when keys are distinct)"
							} else {
								ob.Status = Violation
								ob.Detail = what + " shortens the slice and keeps iterating over the old header (" + g + "): the element after each removed one is skipped and stale tail elements are revisited"
								ob.Path = w
							}
						}
						if !isTags {
							ob.Detail = "[" + ob.Status + " outside b6.Tags] " + ob.Detail
							ob.Status = Info
						}
						out = append(out, ob)
					}
				}
			}
			// anchor for b6.Tags: a method that ranges over its receiver and assigns it, without the shape
			if isTags && found == 0 && recvObj != nil {
				isRecvDeref := func(e ast.Expr) bool {
					e = ast.Unparen(e)
					if st, ok := e.(*ast.StarExpr); ok {
						e = ast.Unparen(st.X)
					}
					id, ok := e.(*ast.Ident)
					return ok && info.ObjectOf(id) == recvObj
				}
				var rng *ast.RangeStmt
				assigns := false
				inspectShallow(fd.Body, func(n ast.Node) bool {
					switch x := n.(type) {
					case *ast.RangeStmt:
						if rng == nil && isRecvDeref(x.X) {
							rng = x
						}
					case *ast.AssignStmt:
						for _, l := range x.Lhs {
							if _, isStar := ast.Unparen(l).(*ast.StarExpr); isStar && isRecvDeref(l) {
								assigns = true
							}
						}
					}
					return true
				})
				if rng != nil && assigns {
					out = append(out, Obligation{Key: name + "#1", Pos: c.Position(rng.Pos()), Status: OK,
						Detail: "ranges over the receiver and assigns it, but no assignment inside the loop body shortens it by the loop index"})
				}
			}
		}
	}
	return out
}
