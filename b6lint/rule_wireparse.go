package main

import (
	"fmt"
	"go/ast"
	"go/token"
	"go/types"
	"sort"
	"strings"

	"golang.org/x/tools/go/packages"
)

// WIRE-PARSE (C19): a string that travels in a protobuf message is decoded for what it is, not
// for what it looks like.
//
// Slots (root package, by type and shape, nothing by name):
//   - wire strings: fields of type string / []string of struct types declared in
//     diagonal.works/b6/proto. A *read* is a field selector `m.F` that is not an assignment
//     target, or a call of the generated getter `m.GetF()` (mapped to the field of the message or of
//     the oneof wrapper that holds F). A *write* is the element `F: e` of a composite literal of
//     the message, or an assignment `m.F = e`.
//   - text parsers: functions with a string parameter whose content they inspect — the parameter
//     (through conversions, local variables and calls into other module functions, depth <= 4)
//     reaches a function of strings/strconv/regexp/unicode/utf8/bytes or fmt.Sscan*, is compared,
//     indexed, sliced, ranged over or switched on. Computed, not listed; today's parsers of the root
//     package that return a typed value are reported by the info obligation b6.textParsers#1:
//     ExpressionFromString, NewExpressionsFromString, FeatureIDFromString, FeatureTypeFromString,
//     LatLngFromString, FeatureIDFromUKONSCode, PointIDFromGBPostcode, TileFromURLPath,
//     TileIDFromToken, makeVersionFromGitOutput. Plain wrappers (NewStringExpression, NewSymbolExpression: the parameter
//     is only converted and stored) are not parsers.
//
// Clause (a), one instance per read of a wire string (key: the function that reads, n-th read):
// the value read flows only into plain sinks — a conversion to a string type, a field of a
// composite literal or a field store of string type, a parameter of a module function that itself
// only does that — and in particular never into content-inspecting code. Reaching a text parser
// is allowed only when the parser is in the inverse-pair table below and every write of that very
// field in the root package is a call of the paired printer. fmt.Errorf / log arguments are
// ignored (diagnostics).
//
// Clause (b), one instance per (FromProto case matched by VARIANT, wire string written by the
// ToProto of the type that case returns; key: that ToProto method, n-th field): the writer is the
// identity printer — a string-typed expression, `string(x)`, or `x.String()` where x is an
// expression (b6.Expression, an AnyExpression implementation) or a string type — and the case's
// converter reads that field back, with every read satisfying clause (a). A field written with any
// other printer needs its inverse parser on every read (table). Writers and readers are collected
// through static calls to module functions, depth <= 3, never entering a function that contains a
// oneof switch (the generic entry points).
//
// Anything else (a read that is returned, concatenated, passed to a dynamic call or to an unknown
// library function, a write through an unknown call) is `undecided`.
func init() {
	register(&Rule{
		Name:  "WIRE-PARSE",
		IR:    "ast",
		Props: []string{"C19"},
		Floor: 23, // today: 10 reads of wire strings (a) + 13 (case, written field) pairs (b)
		Doc: "a string field of a protobuf message is read back by plain conversion only (never through a content-inspecting text parser such as ExpressionFromString, " +
			"unless the field is written with that parser's inverse printer), and for every FromProto case / ToProto pair each string field written with the identity printer is read back plainly",
		Run: runWireParse,
	})
}

// jwInverse: text parser -> its inverse printer (types.Func full names). No pair is used on the
// wire today (feature IDs travel as FeatureIDProto); the row documents the only exact inverse
// pair of the package and applies only if both sides of a field use it.
var jwInverse = map[string]string{
	ModulePath + ".FeatureIDFromString": "(" + ModulePath + ".FeatureID).String",
}

// jwInspectPkgs: library packages whose functions look at the content of a string argument.
var jwInspectPkgs = map[string]bool{"strings": true, "strconv": true, "regexp": true, "unicode": true, "unicode/utf8": true, "bytes": true}

type jwField struct {
	msg  *types.TypeName
	name string
}

func (f jwField) String() string { return f.msg.Name() + "." + f.name }

type jwSinkKind int

const (
	jwPlain jwSinkKind = iota
	jwInspect
	jwUnknown
)

type jwSink struct {
	kind  jwSinkKind
	what  string      // description
	via   []string    // module functions entered, outermost first
	first *types.Func // outermost module function entered (the parser, for clause (a))
}

type jwAnalysis struct {
	c    *Ctx
	root *packages.Package
	jp   *jProto
	memo map[string][]jwSink
	busy map[string]bool
}

func jwIsWireString(t types.Type) bool {
	if t == nil {
		return false
	}
	if s, ok := t.Underlying().(*types.Slice); ok {
		t = s.Elem()
	}
	b, ok := t.(*types.Basic)
	return ok && b.Kind() == types.String
}

func jwStringKinded(t types.Type) bool {
	if t == nil {
		return false
	}
	if s, ok := t.Underlying().(*types.Slice); ok {
		t = s.Elem()
	}
	b, ok := t.Underlying().(*types.Basic)
	return ok && b.Info()&types.IsString != 0
}

func (a *jwAnalysis) isProtoType(t types.Type) *types.Named {
	n := namedOf(t)
	if n == nil || n.Obj().Pkg() == nil || n.Obj().Pkg().Path() != ModulePath+"/proto" {
		return nil
	}
	return n
}

// source recognises a read of a wire string.
func (a *jwAnalysis) source(info *types.Info, e ast.Expr) (jwField, bool) {
	switch x := e.(type) {
	case *ast.SelectorExpr:
		sel, ok := info.Selections[x]
		if !ok || sel.Kind() != types.FieldVal || !jwIsWireString(sel.Type()) {
			return jwField{}, false
		}
		if m := a.isProtoType(sel.Recv()); m != nil {
			if _, isStruct := m.Underlying().(*types.Struct); isStruct {
				return jwField{m.Obj(), x.Sel.Name}, true
			}
		}
	case *ast.CallExpr:
		f := calleeFunc(info, x)
		if f == nil || len(x.Args) != 0 || !strings.HasPrefix(f.Name(), "Get") {
			return jwField{}, false
		}
		sig := f.Type().(*types.Signature)
		if sig.Recv() == nil || sig.Results().Len() != 1 || !jwIsWireString(sig.Results().At(0).Type()) {
			return jwField{}, false
		}
		m := a.isProtoType(sig.Recv().Type())
		if m == nil {
			return jwField{}, false
		}
		name := f.Name()[3:]
		st, ok := m.Underlying().(*types.Struct)
		if !ok {
			return jwField{}, false
		}
		for i := 0; i < st.NumFields(); i++ {
			if st.Field(i).Name() == name {
				return jwField{m.Obj(), name}, true
			}
		}
		for i := 0; i < st.NumFields(); i++ {
			if o := jOneofIface(st.Field(i).Type()); o != nil {
				for _, w := range a.jp.wrappers[o.Obj()] {
					ws := w.Underlying().(*types.Struct)
					for j := 0; j < ws.NumFields(); j++ {
						if ws.Field(j).Name() == name {
							return jwField{w.Obj(), name}, true
						}
					}
				}
			}
		}
	}
	return jwField{}, false
}

// flow follows the value of expression e (inside body root of package p) to its sinks.
func (a *jwAnalysis) flow(p *packages.Package, root ast.Node, e ast.Expr, depth int, seen map[types.Object]bool) []jwSink {
	info := p.TypesInfo
	chain := enclosing(root, e)
	if chain == nil {
		return []jwSink{{kind: jwUnknown, what: "expression not found in its function"}}
	}
	cur := ast.Node(e)
	for i := len(chain) - 2; i >= 0; i-- {
		parent := chain[i]
		switch x := parent.(type) {
		case *ast.ParenExpr:
			cur = x
			continue
		case *ast.CallExpr:
			if ast.Node(x.Fun) == cur || jwContains(x.Fun, cur) {
				return []jwSink{{kind: jwUnknown, what: "method or function value called on the string at " + a.c.Position(x.Pos())}}
			}
			idx := -1
			for k, arg := range x.Args {
				if ast.Node(arg) == cur {
					idx = k
				}
			}
			if idx < 0 {
				return []jwSink{{kind: jwUnknown, what: "unexpected call shape at " + a.c.Position(x.Pos())}}
			}
			if tv, ok := info.Types[x.Fun]; ok && tv.IsType() {
				if jwStringKinded(tv.Type) {
					cur = x
					continue // conversion to a string type: still the same text
				}
				return []jwSink{{kind: jwUnknown, what: "converted to " + tv.Type.String() + " at " + a.c.Position(x.Pos())}}
			}
			if isBuiltin(info, x, "len") {
				return []jwSink{{kind: jwInspect, what: "len() at " + a.c.Position(x.Pos())}}
			}
			f := calleeFunc(info, x)
			if f == nil {
				return []jwSink{{kind: jwUnknown, what: "passed to a dynamic call or builtin at " + a.c.Position(x.Pos())}}
			}
			if f.Pkg() != nil && !strings.HasPrefix(f.Pkg().Path(), ModulePath) {
				full := f.Pkg().Path() + "." + f.Name()
				switch {
				case full == "fmt.Errorf" || f.Pkg().Path() == "log" || f.Pkg().Path() == "errors":
					return nil // diagnostics
				case jwInspectPkgs[f.Pkg().Path()] || strings.HasPrefix(full, "fmt.Sscan"):
					return []jwSink{{kind: jwInspect, what: f.FullName() + " at " + a.c.Position(x.Pos())}}
				}
				return []jwSink{{kind: jwUnknown, what: "passed to " + f.FullName() + " at " + a.c.Position(x.Pos())}}
			}
			sig := f.Type().(*types.Signature)
			if sig.Variadic() && idx >= sig.Params().Len()-1 {
				idx = sig.Params().Len() - 1
			}
			var out []jwSink
			for _, s := range a.paramSinks(f, idx, depth+1) {
				s.via = append([]string{f.Name()}, s.via...)
				s.first = f
				out = append(out, s)
			}
			return out
		case *ast.KeyValueExpr:
			if ast.Node(x.Value) != cur {
				return []jwSink{{kind: jwUnknown, what: "used as a key at " + a.c.Position(x.Pos())}}
			}
			// parent composite literal decides the element type
			if i > 0 {
				if lit, ok := chain[i-1].(*ast.CompositeLit); ok {
					return []jwSink{a.storeSink(jwLitFieldType(info, lit, x), info.TypeOf(x.Value), a.c.Position(x.Pos()))}
				}
			}
			return []jwSink{{kind: jwUnknown, what: "key/value outside a literal at " + a.c.Position(x.Pos())}}
		case *ast.CompositeLit:
			idx := -1
			for k, el := range x.Elts {
				if ast.Node(el) == cur {
					idx = k
				}
			}
			var vt types.Type
			if idx >= 0 {
				vt = info.TypeOf(x.Elts[idx])
			}
			return []jwSink{a.storeSink(jwLitElemType(info, x, idx), vt, a.c.Position(x.Pos()))}
		case *ast.AssignStmt:
			idx := -1
			for k, r := range x.Rhs {
				if ast.Node(r) == cur {
					idx = k
				}
			}
			if idx < 0 || len(x.Lhs) != len(x.Rhs) {
				return []jwSink{{kind: jwUnknown, what: "assignment shape at " + a.c.Position(x.Pos())}}
			}
			if id, ok := x.Lhs[idx].(*ast.Ident); ok {
				obj := info.ObjectOf(id)
				if v, ok := obj.(*types.Var); ok && !v.IsField() && v.Parent() != nil && v.Parent() != v.Pkg().Scope() {
					return a.varSinks(p, root, obj, depth, seen)
				}
				return []jwSink{{kind: jwUnknown, what: "stored in package-level " + id.Name + " at " + a.c.Position(x.Pos())}}
			}
			return []jwSink{a.storeSink(info.TypeOf(x.Lhs[idx]), info.TypeOf(x.Rhs[idx]), a.c.Position(x.Pos()))}
		case *ast.ValueSpec:
			for k, v := range x.Values {
				if ast.Node(v) == cur && k < len(x.Names) {
					return a.varSinks(p, root, info.ObjectOf(x.Names[k]), depth, seen)
				}
			}
			return []jwSink{{kind: jwUnknown, what: "declaration shape at " + a.c.Position(x.Pos())}}
		case *ast.BinaryExpr:
			switch x.Op {
			case token.EQL, token.NEQ, token.LSS, token.LEQ, token.GTR, token.GEQ:
				return []jwSink{{kind: jwInspect, what: "compared (" + x.Op.String() + ") at " + a.c.Position(x.Pos())}}
			}
			return []jwSink{{kind: jwUnknown, what: "operand of " + x.Op.String() + " at " + a.c.Position(x.Pos())}}
		case *ast.IndexExpr:
			if ast.Node(x.X) == cur {
				return []jwSink{{kind: jwInspect, what: "indexed at " + a.c.Position(x.Pos())}}
			}
			return []jwSink{{kind: jwUnknown, what: "used as an index at " + a.c.Position(x.Pos())}}
		case *ast.SliceExpr:
			return []jwSink{{kind: jwInspect, what: "sliced at " + a.c.Position(x.Pos())}}
		case *ast.RangeStmt:
			if ast.Node(x.X) != cur {
				return nil
			}
			if _, isSlice := info.TypeOf(x.X).Underlying().(*types.Slice); isSlice {
				if id, ok := x.Value.(*ast.Ident); ok && id.Name != "_" {
					return a.varSinks(p, root, info.ObjectOf(id), depth, seen)
				}
				return nil // only counted or indexed by position
			}
			return []jwSink{{kind: jwInspect, what: "ranged over at " + a.c.Position(x.Pos())}}
		case *ast.SwitchStmt, *ast.CaseClause:
			return []jwSink{{kind: jwInspect, what: "switched on at " + a.c.Position(parent.Pos())}}
		case *ast.ReturnStmt:
			return []jwSink{{kind: jwUnknown, what: "returned at " + a.c.Position(x.Pos())}}
		case *ast.ExprStmt:
			return nil
		default:
			return []jwSink{{kind: jwUnknown, what: fmt.Sprintf("used in %T at %s", parent, a.c.Position(parent.Pos()))}}
		}
	}
	return nil
}

func jwContains(root ast.Node, target ast.Node) bool {
	found := false
	ast.Inspect(root, func(n ast.Node) bool {
		if n == target {
			found = true
		}
		return !found
	})
	return found
}

// storeSink: storing into a slot of string type, or storing a value whose own static type is a
// string type into an interface slot (Expression{AnyExpression: StringExpression(s)}), keeps the text.
func (a *jwAnalysis) storeSink(t, vt types.Type, at string) jwSink {
	if jwStringKinded(t) {
		return jwSink{kind: jwPlain, what: "stored as " + jTypeString(t) + " at " + at}
	}
	if t != nil && types.IsInterface(t) && jwStringKinded(vt) {
		return jwSink{kind: jwPlain, what: "stored as " + jTypeString(vt) + " at " + at}
	}
	ts := "?"
	if t != nil {
		ts = jTypeString(t)
	}
	return jwSink{kind: jwUnknown, what: "stored into a " + ts + " at " + at}
}

func jwLitFieldType(info *types.Info, lit *ast.CompositeLit, kv *ast.KeyValueExpr) types.Type {
	t := info.TypeOf(lit)
	if t == nil {
		return nil
	}
	switch u := t.Underlying().(type) {
	case *types.Struct:
		if id, ok := kv.Key.(*ast.Ident); ok {
			for i := 0; i < u.NumFields(); i++ {
				if u.Field(i).Name() == id.Name {
					return u.Field(i).Type()
				}
			}
		}
	case *types.Map:
		return u.Elem()
	case *types.Slice:
		return u.Elem()
	case *types.Array:
		return u.Elem()
	}
	return nil
}

func jwLitElemType(info *types.Info, lit *ast.CompositeLit, idx int) types.Type {
	t := info.TypeOf(lit)
	if t == nil || idx < 0 {
		return nil
	}
	switch u := t.Underlying().(type) {
	case *types.Struct:
		if idx < u.NumFields() {
			return u.Field(idx).Type()
		}
	case *types.Slice:
		return u.Elem()
	case *types.Array:
		return u.Elem()
	}
	return nil
}

// varSinks follows every use of a local variable.
func (a *jwAnalysis) varSinks(p *packages.Package, root ast.Node, obj types.Object, depth int, seen map[types.Object]bool) []jwSink {
	if obj == nil || seen[obj] {
		return nil
	}
	seen[obj] = true
	info := p.TypesInfo
	var uses []*ast.Ident
	ast.Inspect(root, func(n ast.Node) bool {
		if id, ok := n.(*ast.Ident); ok && info.Uses[id] == obj {
			uses = append(uses, id)
		}
		return true
	})
	var out []jwSink
	for _, id := range uses {
		if jwIsAssignTarget(root, id) {
			continue
		}
		out = append(out, a.flow(p, root, id, depth, seen)...)
	}
	return out
}

func jwIsAssignTarget(root ast.Node, e ast.Expr) bool {
	chain := enclosing(root, e)
	for i := len(chain) - 2; i >= 0; i-- {
		switch x := chain[i].(type) {
		case *ast.ParenExpr:
			continue
		case *ast.AssignStmt:
			for _, l := range x.Lhs {
				if ast.Node(l) == chain[i+1] {
					return true
				}
			}
			return false
		default:
			return false
		}
	}
	return false
}

// paramSinks summarises what a module function does with its idx-th parameter.
func (a *jwAnalysis) paramSinks(f *types.Func, idx int, depth int) []jwSink {
	f = f.Origin()
	key := fmt.Sprintf("%s#%d", f.FullName(), idx)
	if s, ok := a.memo[key]; ok {
		return s
	}
	if a.busy[key] {
		return nil
	}
	if depth > 4 {
		return []jwSink{{kind: jwUnknown, what: "call depth exceeded in " + f.FullName()}}
	}
	fd, p := a.c.Decl(f)
	if fd == nil || fd.Body == nil {
		return []jwSink{{kind: jwUnknown, what: f.FullName() + " has no body in the module"}}
	}
	var obj types.Object
	k := 0
	for _, fl := range fd.Type.Params.List {
		if len(fl.Names) == 0 {
			k++
			continue
		}
		for _, n := range fl.Names {
			if k == idx {
				obj = p.TypesInfo.Defs[n]
			}
			k++
		}
	}
	if obj == nil {
		return nil // unnamed or blank parameter: unused
	}
	a.busy[key] = true
	out := a.varSinks(p, fd.Body, obj, depth, map[types.Object]bool{})
	delete(a.busy, key)
	a.memo[key] = out
	return out
}

type jwRead struct {
	pkg   *packages.Package
	fd    *ast.FuncDecl
	expr  ast.Expr
	field jwField
	ord   int
	sinks []jwSink
}

type jwWrite struct {
	pkg   *packages.Package
	fd    *ast.FuncDecl
	expr  ast.Expr // the value written
	field jwField
}

func (a *jwAnalysis) reads(p *packages.Package, fd *ast.FuncDecl) []*jwRead {
	info := p.TypesInfo
	var out []*jwRead
	ast.Inspect(fd.Body, func(n ast.Node) bool {
		e, ok := n.(ast.Expr)
		if !ok {
			return true
		}
		fld, ok := a.source(info, e)
		if !ok {
			return true
		}
		if jwIsAssignTarget(fd.Body, e) {
			return false
		}
		out = append(out, &jwRead{pkg: p, fd: fd, expr: e, field: fld})
		return false
	})
	return out
}

func (a *jwAnalysis) writes(p *packages.Package, fd *ast.FuncDecl) []*jwWrite {
	info := p.TypesInfo
	var out []*jwWrite
	ast.Inspect(fd.Body, func(n ast.Node) bool {
		switch x := n.(type) {
		case *ast.CompositeLit:
			m := a.isProtoType(info.TypeOf(x))
			if m == nil {
				return true
			}
			st, ok := m.Underlying().(*types.Struct)
			if !ok {
				return true
			}
			for i, el := range x.Elts {
				name, val := "", el
				if kv, ok := el.(*ast.KeyValueExpr); ok {
					if id, ok := kv.Key.(*ast.Ident); ok {
						name, val = id.Name, kv.Value
					}
				} else if i < st.NumFields() {
					name = st.Field(i).Name()
				}
				for j := 0; j < st.NumFields(); j++ {
					if st.Field(j).Name() == name && jwIsWireString(st.Field(j).Type()) {
						out = append(out, &jwWrite{p, fd, val, jwField{m.Obj(), name}})
					}
				}
			}
		case *ast.AssignStmt:
			if len(x.Lhs) != len(x.Rhs) {
				return true
			}
			for i, l := range x.Lhs {
				if sel, ok := ast.Unparen(l).(*ast.SelectorExpr); ok {
					if fld, ok := a.source(info, sel); ok {
						out = append(out, &jwWrite{p, fd, x.Rhs[i], fld})
					}
				}
			}
		}
		return true
	})
	return out
}

// writerClass: "" when e is the identity printer of a string; otherwise the printer's name.
func (a *jwAnalysis) writerClass(info *types.Info, e ast.Expr) (printer string, unknown string) {
	e = ast.Unparen(e)
	call, ok := e.(*ast.CallExpr)
	if !ok {
		// no call anywhere inside: a string-typed operand
		hasCall := false
		ast.Inspect(e, func(n ast.Node) bool {
			if c, ok := n.(*ast.CallExpr); ok {
				if tv, ok := info.Types[c.Fun]; !ok || !tv.IsType() {
					hasCall = true
				}
			}
			return true
		})
		if hasCall || !jwStringKinded(info.TypeOf(e)) {
			return "", "written value " + types.ExprString(e) + " is not a plain string operand"
		}
		return "", ""
	}
	if tv, ok := info.Types[call.Fun]; ok && tv.IsType() {
		if len(call.Args) == 1 && jwStringKinded(tv.Type) && jwStringKinded(info.TypeOf(call.Args[0])) {
			return a.writerClass(info, call.Args[0])
		}
		return "", "conversion " + types.ExprString(e) + " is not between string types"
	}
	f := calleeFunc(info, call)
	if f == nil {
		return "", "written value comes from a dynamic call " + types.ExprString(e)
	}
	if f.Name() == "String" && len(call.Args) == 0 {
		if sel, ok := ast.Unparen(call.Fun).(*ast.SelectorExpr); ok {
			rt := info.TypeOf(sel.X)
			mt := f.Type().(*types.Signature).Recv().Type() // where String is declared (AnyExpression when promoted)
			if jwStringKinded(rt) || a.isExpressionType(rt) || a.isExpressionType(mt) {
				return "", ""
			}
		}
	}
	return f.FullName(), ""
}

// isExpressionType: b6.Expression (the carrier of AnyExpression), the AnyExpression interface
// family, or a type implementing it.
func (a *jwAnalysis) isExpressionType(t types.Type) bool {
	if t == nil {
		return false
	}
	any, _ := a.root.Types.Scope().Lookup("AnyExpression").(*types.TypeName)
	if any == nil {
		return false
	}
	it, ok := any.Type().Underlying().(*types.Interface)
	if !ok {
		return false
	}
	return types.Implements(t, it) || types.Implements(types.NewPointer(t), it)
}

// closure lists the module functions reachable from the given bodies by static calls
// (depth <= 3), never entering a function that contains a oneof switch.
func (a *jwAnalysis) closure(p *packages.Package, start []ast.Node, startFn *ast.FuncDecl) []*ast.FuncDecl {
	type item struct {
		node  ast.Node
		p     *packages.Package
		depth int
	}
	var out []*ast.FuncDecl
	seen := map[*ast.FuncDecl]bool{}
	var work []item
	for _, n := range start {
		work = append(work, item{n, p, 0})
	}
	for len(work) > 0 {
		it := work[0]
		work = work[1:]
		ast.Inspect(it.node, func(n ast.Node) bool {
			call, ok := n.(*ast.CallExpr)
			if !ok {
				return true
			}
			f := calleeFunc(it.p.TypesInfo, call)
			if f == nil {
				return true
			}
			fd, fp := a.c.Decl(f)
			if fd == nil || fd.Body == nil || seen[fd] || fd == startFn || it.depth >= 3 {
				return true
			}
			if jHasOneofSwitch(fp.TypesInfo, fd.Body) {
				return true
			}
			seen[fd] = true
			out = append(out, fd)
			work = append(work, item{fd.Body, fp, it.depth + 1})
			return true
		})
	}
	return out
}

func runWireParse(c *Ctx) []Obligation {
	p := c.Pkg("")
	if p == nil {
		return nil
	}
	a := &jwAnalysis{c: c, root: p, jp: jProtoIndex(c), memo: map[string][]jwSink{}, busy: map[string]bool{}}
	var out []Obligation

	// ---- all reads and writes of wire strings in the root package
	readsByFn := map[*ast.FuncDecl][]*jwRead{}
	writesByFn := map[*ast.FuncDecl][]*jwWrite{}
	writesByField := map[jwField][]*jwWrite{}
	for _, fd := range c.FuncDecls(p) {
		rs := a.reads(p, fd)
		for i, r := range rs {
			r.ord = i + 1
			r.sinks = a.flow(p, fd.Body, r.expr, 0, map[types.Object]bool{})
		}
		if len(rs) > 0 {
			readsByFn[fd] = rs
		}
		ws := a.writes(p, fd)
		if len(ws) > 0 {
			writesByFn[fd] = ws
		}
		for _, w := range ws {
			writesByField[w.field] = append(writesByField[w.field], w)
		}
	}

	// verdict of one read under clause (a)
	verdict := func(r *jwRead) (string, string) {
		var bad, unk, good []string
		add := func(list *[]string, s string) {
			for _, x := range *list {
				if x == s {
					return
				}
			}
			*list = append(*list, s)
		}
		parsers := map[*types.Func]bool{} // one report per parser reached, with the first inspection point
		for _, s := range r.sinks {
			via := ""
			if len(s.via) > 0 {
				via = " via " + strings.Join(s.via, " > ")
			}
			switch s.kind {
			case jwPlain:
				add(&good, s.what+via)
			case jwUnknown:
				add(&unk, s.what+via)
			case jwInspect:
				if s.first != nil {
					if parsers[s.first] {
						continue
					}
					parsers[s.first] = true
					if printer, ok := jwInverse[s.first.FullName()]; ok {
						all := len(writesByField[r.field]) > 0
						for _, w := range writesByField[r.field] {
							if pr, _ := a.writerClass(w.pkg.TypesInfo, w.expr); pr != printer {
								all = false
							}
						}
						if all {
							add(&good, fmt.Sprintf("parsed by %s, the inverse of %s with which every writer of %s prints it", s.first.Name(), printer, r.field))
							continue
						}
					}
					add(&bad, fmt.Sprintf("reaches the text parser %s, which inspects its content (%s%s), while the writers of the field do not print with that parser's inverse: a value that merely looks like something else is decoded as another kind",
						s.first.Name(), s.what, via))
				} else {
					add(&bad, "its content is inspected in the decoder itself: "+s.what)
				}
			}
		}
		desc := fmt.Sprintf("read of %s (%s)", r.field, types.ExprString(r.expr))
		switch {
		case len(bad) > 0:
			return Violation, desc + " " + strings.Join(bad, "; ")
		case len(unk) > 0:
			return Undecided, desc + " flows somewhere the rule does not know: " + strings.Join(unk, "; ")
		case len(good) == 0:
			return OK, desc + " is not used"
		}
		return OK, desc + " only " + strings.Join(good, "; ")
	}

	// ---- clause (a)
	var fns []*ast.FuncDecl
	for fd := range readsByFn {
		fns = append(fns, fd)
	}
	sort.Slice(fns, func(i, j int) bool { return fns[i].Pos() < fns[j].Pos() })
	for _, fd := range fns {
		for _, r := range readsByFn[fd] {
			st, detail := verdict(r)
			out = append(out, Obligation{Key: fmt.Sprintf("%s#%d", c.FuncName(p, fd), r.ord), Pos: c.Position(r.expr.Pos()), Status: st, Detail: "(a) " + detail})
		}
	}

	// ---- clause (b): per FromProto case and written field
	type pairKey struct {
		fn    *ast.FuncDecl
		field jwField
	}
	done := map[pairKey]bool{}
	ords := map[*ast.FuncDecl]int{}
	for _, k := range jFromProtoCases(c).cases {
		for _, t := range k.res.dyn {
			_, tfd, tp := jMethodDecl(c, t, "ToProto")
			if tfd == nil || tfd.Body == nil || tp != p {
				continue
			}
			// writers: ToProto and its helpers; readers: the case body and its converters
			wfns := append([]*ast.FuncDecl{tfd}, a.closure(tp, []ast.Node{tfd.Body}, tfd)...)
			var starts []ast.Node
			for _, s := range k.clause.Body {
				starts = append(starts, s)
			}
			rfns := a.closure(p, starts, nil)
			var caseReads []*jwRead
			for _, r := range readsByFn[k.fn] {
				if r.expr.Pos() >= k.clause.Pos() && r.expr.End() <= k.clause.End() {
					caseReads = append(caseReads, r)
				}
			}
			for _, fd := range rfns {
				caseReads = append(caseReads, readsByFn[fd]...)
			}
			for _, wfd := range wfns {
				for _, w := range writesByFn[wfd] {
					pk := pairKey{tfd, w.field}
					if done[pk] {
						continue
					}
					done[pk] = true
					ords[tfd]++
					ob := Obligation{Key: fmt.Sprintf("%s#%d", c.FuncName(p, tfd), ords[tfd]), Pos: c.Position(w.expr.Pos())}
					printer, unk := a.writerClass(w.pkg.TypesInfo, w.expr)
					var rs []*jwRead
					for _, r := range caseReads {
						if r.field == w.field {
							rs = append(rs, r)
						}
					}
					head := fmt.Sprintf("(b) case %s / %s: field %s written as %s in %s", k.chainString(), jTypeString(t), w.field, types.ExprString(w.expr), c.FuncName(p, wfd))
					switch {
					case unk != "":
						ob.Status, ob.Detail = Undecided, head+": "+unk
					case len(rs) == 0:
						ob.Status, ob.Detail = Undecided, head+" is not read back by the case's converter (within 3 calls): the value is dropped or read somewhere the rule does not see"
					default:
						var bad, und, good []string
						for _, r := range rs {
							st, d := verdict(r)
							where := fmt.Sprintf("%s at %s", c.FuncName(p, r.fd), c.Position(r.expr.Pos()))
							switch st {
							case Violation:
								bad = append(bad, where+": "+d)
							case Undecided:
								und = append(und, where+": "+d)
							default:
								good = append(good, where)
							}
						}
						if printer != "" {
							// a non-identity printer needs its inverse on every read
							ok := len(bad) == 0 && len(und) == 0
							for _, r := range rs {
								inv := false
								for _, s := range r.sinks {
									if s.first != nil && jwInverse[s.first.FullName()] == printer {
										inv = true
									}
								}
								ok = ok && inv
							}
							if ok {
								ob.Status, ob.Detail = OK, head+" with printer "+printer+" and read back with its inverse parser at "+strings.Join(good, ", ")
							} else {
								ob.Status = Violation
								ob.Detail = head + ": the printer " + printer + " is not the identity and the field is not read back with its inverse parser (" + strings.Join(append(append(good, bad...), und...), "; ") + ")"
							}
							break
						}
						switch {
						case len(bad) > 0:
							ob.Status, ob.Detail = Violation, head+" (identity printer) but not read back plainly: "+strings.Join(bad, "; ")
						case len(und) > 0:
							ob.Status, ob.Detail = Undecided, head+": "+strings.Join(und, "; ")
						default:
							ob.Status, ob.Detail = OK, head+" (identity printer) and read back plainly at "+strings.Join(good, ", ")
						}
					}
					out = append(out, ob)
				}
			}
		}
	}

	// ---- the text parsers of the root package (information)
	var parsers []string
	for _, fd := range c.FuncDecls(p) {
		fn, _ := p.TypesInfo.Defs[fd.Name].(*types.Func)
		if fn == nil || fd.Recv != nil {
			continue
		}
		sig := fn.Type().(*types.Signature)
		if sig.Results().Len() == 0 || jwStringKinded(sig.Results().At(0).Type()) {
			continue
		}
		if b, ok := sig.Results().At(0).Type().(*types.Basic); ok && b.Kind() != types.Invalid {
			continue // plain numbers and booleans are not typed expressions or IDs
		}
		if jIsError(sig.Results().At(0).Type()) {
			continue
		}
		for i := 0; i < sig.Params().Len(); i++ {
			if b, ok := sig.Params().At(i).Type().(*types.Basic); !ok || b.Kind() != types.String {
				continue
			}
			inspects := false
			for _, s := range a.paramSinks(fn, i, 0) {
				if s.kind == jwInspect {
					inspects = true
				}
			}
			if inspects {
				parsers = append(parsers, c.FuncName(p, fd))
				break
			}
		}
	}
	sort.Strings(parsers)
	out = append(out, Obligation{Key: "b6.textParsers#1", Pos: "-", Status: Info,
		Detail: fmt.Sprintf("%d functions of the root package turn a string into a typed value by inspecting its content: %s", len(parsers), strings.Join(parsers, ", "))})
	return out
}
