package main

import (
	"fmt"
	"go/ast"
	"go/types"

	"golang.org/x/tools/go/cfg"
)

// START-FLAG (C07, C06): an iterator remembers in a boolean field that it has been positioned
// ("started"). `Next` and `Advance` consult the flag to decide between positioning afresh and
// stepping on; a positioning helper that can return without raising the flag — an early return for
// the empty container — leaves the iterator "not started" although its caller has consumed a step,
// and once the container is filled again the iterator starts over from the minimum: values come out
// of order.
//
// Subjects, by shape: the methods of every type that implements search.Iterator or
// search.TokenIterator, and in them every assignment `recv.F = true` to a bool field F such that
// another method of the type calls this method under a test of F (`if !t.started { return
// t.start() }`: F is the positioning flag and this is the positioning helper), not
// nested in an if statement whose condition tests that field (the idiom `if !t.started {
// t.started = true … }` sets the flag exactly where it was down). Obligation (control-flow graph):
// no path from the entry of the method to a return avoids the assignment.
func init() {
	register(&Rule{
		Name:  "START-FLAG",
		IR:    "cfg",
		Props: []string{"C07", "C06"},
		Floor: 2,
		Doc:   "an iterator method that raises the 'started' flag outside a test of that flag raises it on every path to a return: no early return (for the empty container) leaves the iterator unpositioned and unflagged",
		Run:   runStartFlag,
	})
}

func runStartFlag(c *Ctx) []Obligation {
	var out []Obligation
	for _, it := range c.gIteratorTypes() {
		info := it.pkg.TypesInfo
		for i := 0; i < it.named.NumMethods(); i++ {
			fd, _ := c.Decl(it.named.Method(i))
			if fd == nil || fd.Body == nil {
				continue
			}
			recv := gRecvObj(info, fd)
			if recv == nil {
				continue
			}
			name := c.FuncName(it.pkg, fd)
			var g *cfg.CFG
			ord := 0
			ast.Inspect(fd.Body, func(n ast.Node) bool {
				as, ok := n.(*ast.AssignStmt)
				if !ok || len(as.Lhs) != 1 || len(as.Rhs) != 1 {
					return true
				}
				sel, ok := ast.Unparen(as.Lhs[0]).(*ast.SelectorExpr)
				if !ok {
					return true
				}
				if x, ok := ast.Unparen(sel.X).(*ast.Ident); !ok || info.Uses[x] != recv {
					return true
				}
				if b, ok := info.TypeOf(sel).Underlying().(*types.Basic); !ok || b.Kind() != types.Bool {
					return true
				}
				if tv := info.Types[as.Rhs[0]]; tv.Value == nil || tv.Value.ExactString() != "true" {
					return true
				}
				field := info.Selections[sel].Obj()
				// a positioning flag: some method of the type tests the field, negated or not, in an if
				// statement under which this very method is called (`if !t.started { return t.start() }`)
				thisM, _ := info.Defs[fd.Name].(*types.Func)
				positioning := false
				for j := 0; j < it.named.NumMethods() && !positioning; j++ {
					od, _ := c.Decl(it.named.Method(j))
					if od == nil || od.Body == nil || od == fd {
						continue
					}
					ast.Inspect(od.Body, func(k ast.Node) bool {
						ifs, ok := k.(*ast.IfStmt)
						if !ok {
							return true
						}
						tests := false
						ast.Inspect(ifs.Cond, func(q ast.Node) bool {
							if s2, ok := q.(*ast.SelectorExpr); ok {
								if sl := info.Selections[s2]; sl != nil && sl.Obj() == field {
									tests = true
								}
							}
							return true
						})
						if !tests {
							return true
						}
						ast.Inspect(ifs, func(q ast.Node) bool {
							if call, ok := q.(*ast.CallExpr); ok && calleeFunc(info, call) == thisM {
								positioning = true
							}
							return true
						})
						return true
					})
				}
				if !positioning {
					return true
				}
				// nested in a test of the same field?
				for _, anc := range enclosing(fd.Body, as) {
					if ifs, ok := anc.(*ast.IfStmt); ok {
						tests := false
						ast.Inspect(ifs.Cond, func(k ast.Node) bool {
							if s2, ok := k.(*ast.SelectorExpr); ok {
								if sl := info.Selections[s2]; sl != nil && sl.Obj() == field {
									tests = true
								}
							}
							return true
						})
						if tests {
							return true
						}
					}
				}
				if g == nil {
					g = newCFG(info, fd.Body)
				}
				ord++
				ob := Obligation{Key: fmt.Sprintf("%s#%s%d", name, field.Name(), ord), Pos: c.Position(as.Pos()), Status: OK,
					Detail: fmt.Sprintf("every path through %s raises %s", fd.Name.Name, field.Name())}
				loc, ok := findNode(g, as)
				if !ok {
					ob.Status = Undecided
					ob.Detail = "the assignment was not found in the control-flow graph"
					out = append(out, ob)
					return true
				}
				// reach an exit from the entry without executing the assignment
				seen := map[int32]bool{}
				var walk func(b *cfg.Block) *cfg.Block
				walk = func(b *cfg.Block) *cfg.Block {
					if seen[b.Index] || b == loc.b {
						return nil
					}
					seen[b.Index] = true
					if len(b.Succs) == 0 && !endsInNoReturn(info, b) {
						return b
					}
					for _, s := range b.Succs {
						if e := walk(s); e != nil {
							return e
						}
					}
					return nil
				}
				if len(g.Blocks) > 0 {
					if e := walk(g.Blocks[0]); e != nil {
						at := c.Position(fd.Body.Rbrace)
						if len(e.Nodes) > 0 {
							at = c.Position(e.Nodes[len(e.Nodes)-1].Pos())
						}
						ob.Status = Violation
						ob.Detail = fmt.Sprintf("%s can return at %s without raising %s (set at %s): the caller has consumed a step, the iterator counts as not started, and it starts over from the beginning when the container has entries again", fd.Name.Name, at, field.Name(), c.Position(as.Pos()))
					}
				}
				out = append(out, ob)
				return true
			})
		}
	}
	return out
}
