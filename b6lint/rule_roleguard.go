package main

import (
	"fmt"
	"go/ast"
	"go/constant"
	"go/token"
	"go/types"
)

// ROLE-GUARD (C29): the polygons of a multipolygon follow the relation's outer/inner *way*
// members. A node or relation member carries no ring, so its role must not close, start or
// extend a polygon.
//
// Slots, by shape in every module package outside osm (function literals included): range
// statements over osm.Member values whose body *tests* the Role of the loop's member — a
// ==/!= comparison of X.Role with a constant string ("outer", "inner", ""), or a switch on
// X.Role. Loops that merely copy the role (pbfSource.Read, compact.(*Relation).FromOSM) are
// not slots. Today: ingest.reassembleMultiPolygon and compact.(*Area).FromOSMRelation.
//
// Obligation, one per read of X.Role in such a loop body: the read is dominated by the test
// that the member is a way (the element kind of osm.Way's ID), decided exactly as in SET-KIND:
// an enclosing `if X.Type == osm.ElementTypeWay` (then-branch, conjunctions allowed), the
// `case osm.ElementTypeWay:` arm of a switch on X.Type, or on go/cfg the early-exit idiom
// `if X.Type != osm.ElementTypeWay { continue }` above the read. Everything conditioned on the
// role (appends to and resets of the polygon accumulators) lies under the read and inherits
// the guard. A read with no kind guard, or under the guard of another kind, is a violation.
func init() {
	register(&Rule{
		Name:  "ROLE-GUARD",
		IR:    "cfg",
		Props: []string{"C29"},
		// ingest.reassembleMultiPolygon#1,#2 (m.Role == "outer" || m.Role == ""); ingest/compact.(*Area).FromOSMRelation#1
		Floor: 3,
		Doc: "in every loop over the members of an OSM relation that tests the member's role to assemble polygons, each read of the role is dominated by the test " +
			"that the member is a way (if Type == ElementTypeWay, case ElementTypeWay, or an early exit on Type != ElementTypeWay): node and relation members carry no ring",
		Run: runRoleGuard,
	})
}

func runRoleGuard(c *Ctx) []Obligation {
	k := fNewKindCtx(c)
	if k == nil {
		return nil
	}
	// the kind of a way: the type of osm.Way's ID field
	var wayKind *types.TypeName
	if tn, ok := k.osm.Types.Scope().Lookup("Way").(*types.TypeName); ok {
		if st, ok := tn.Type().Underlying().(*types.Struct); ok {
			for i := 0; i < st.NumFields(); i++ {
				if n := namedOf(st.Field(i).Type()); n != nil && k.idTypes[n.Obj()] && !st.Field(i).Embedded() {
					wayKind = n.Obj()
					break
				}
			}
		}
	}
	// the Role field of osm.Member
	var roleVar *types.Var
	if st, ok := k.member.Underlying().(*types.Struct); ok {
		for i := 0; i < st.NumFields(); i++ {
			if f := st.Field(i); f.Name() == "Role" {
				roleVar = f
			}
		}
	}
	if wayKind == nil || roleVar == nil {
		return []Obligation{{Key: "osm.anchors", Pos: "-", Status: Undecided, Detail: "osm.Way's ID type or osm.Member.Role was not found"}}
	}
	var out []Obligation
	for _, p := range c.SortedPkgs() {
		if p == k.osm {
			continue
		}
		info := p.TypesInfo
		for _, fd := range c.FuncDecls(p) {
			name := c.FuncName(p, fd)
			ord := 0
			done := map[*ast.SelectorExpr]bool{}
			ast.Inspect(fd.Body, func(n ast.Node) bool {
				rs, ok := n.(*ast.RangeStmt)
				if !ok {
					return true
				}
				t := info.TypeOf(rs.X)
				if t == nil {
					return true
				}
				sl, ok := t.Underlying().(*types.Slice)
				if !ok || !k.isMember(sl.Elem()) {
					return true
				}
				var xo types.Object
				if id, ok := rs.Value.(*ast.Ident); ok && id.Name != "_" {
					xo = info.ObjectOf(id)
				}
				isRoleOfX := func(e ast.Expr) *ast.SelectorExpr {
					se, ok := ast.Unparen(e).(*ast.SelectorExpr)
					if !ok {
						return nil
					}
					sel := info.Selections[se]
					if sel == nil || sel.Obj() != types.Object(roleVar) {
						return nil
					}
					if xo != nil && fBaseObj(info, se.X) == xo {
						return se
					}
					// relation.Members[i].Role with the loop key
					if ix, ok := ast.Unparen(se.X).(*ast.IndexExpr); ok && sameExpr(info, ix.X, rs.X) {
						if kid, ok := rs.Key.(*ast.Ident); ok {
							if id := fIdentOf(ix.Index); id != nil && info.ObjectOf(id) == info.ObjectOf(kid) {
								return se
							}
						}
					}
					return nil
				}
				isConstString := func(e ast.Expr) bool {
					tv, ok := info.Types[e]
					return ok && tv.Value != nil && tv.Value.Kind() == constant.String
				}
				// does the body test the role?
				tests := false
				var reads []*ast.SelectorExpr
				ast.Inspect(rs.Body, func(m ast.Node) bool {
					switch x := m.(type) {
					case *ast.BinaryExpr:
						if x.Op == token.EQL || x.Op == token.NEQ {
							if isRoleOfX(x.X) != nil && isConstString(x.Y) || isRoleOfX(x.Y) != nil && isConstString(x.X) {
								tests = true
							}
						}
					case *ast.SwitchStmt:
						if x.Tag != nil && isRoleOfX(x.Tag) != nil {
							tests = true
						}
					case *ast.SelectorExpr:
						if se := isRoleOfX(x); se != nil && !done[se] {
							reads = append(reads, se)
						}
					}
					return true
				})
				if !tests {
					return true
				}
				for _, se := range reads {
					done[se] = true
					ord++
					ob := Obligation{Key: fmt.Sprintf("%s#%d", name, ord), Pos: c.Position(se.Pos())}
					what := fmt.Sprintf("loop over %s at %s: role read %s", types.ExprString(rs.X), c.Position(rs.Pos()), types.ExprString(se))
					kind, how := k.memberKind(info, fd.Body, se, se.X)
					switch {
					case fBaseObj(info, se.X) == nil:
						ob.Status = Undecided
						ob.Detail = what + ": the member is not denoted by a variable, its kind guard cannot be followed"
					case kind == wayKind:
						ob.Status = OK
						ob.Detail = what + " happens only for way members (" + how + ")"
					case kind != nil:
						ob.Status = Violation
						ob.Detail = fmt.Sprintf("%s is made for members of kind %s (%s): only way members carry rings, their roles alone may shape the polygons", what, kind.Name(), how)
					default:
						ob.Status = Violation
						ob.Detail = what + " is not dominated by a test that the member is a way: the role of a node or relation member can close or start a polygon (a relation member with role \"\" or \"outer\" ends the polygon being built, the inner ways after it become a polygon of their own)"
					}
					out = append(out, ob)
				}
				return true
			})
		}
	}
	return out
}
