package main

import (
	"fmt"
	"go/ast"
	"go/token"
	"go/types"
	"reflect"
	"sort"
	"strings"
)

// YAML-KEYS (C18, thin): what the feature writers put into an exported change file can be read
// by the importer.
//
// Slots (by shape and type, package ingest):
//   - writers: methods named MarshalYAML that return a map[string]interface{} built in the method
//     (a composite literal, plus `m["k"] = v` stores into it). Keys must be constant strings.
//     Today: GenericFeature, AreaFeature, RelationFeature, CollectionFeature.
//   - reader struct: the struct type whose address is passed to (*yaml.Decoder).Decode
//     (gopkg.in/yaml.v2) in package ingest (today exportedYAML in ingestedYAML.Apply). Its keys
//     are the yaml.v2 keys of its fields: the name in the `yaml:"name,…"` tag, else the lower-cased
//     field name; fields tagged "-" are not keys.
//   - dispatcher: the function that contains that Decode call.
//
// Obligations:
//
//	per written key (one instance per writer and key): the key is a key of the reader struct.
//	per writer (last ordinal of that writer): the dispatcher has an `if`/`else if` condition
//	`y.F != nil` on the reader field F of a key that identifies the writer's kind: a key only this
//	writer writes (area, relation, collection), or, for a writer with no key of its own
//	(GenericFeature), any key it writes that is not written unconditionally by every writer
//	(tags).
//
// Not decided: the types of the values, key order, omitted-when-empty keys, anything about tags.
func init() {
	register(&Rule{
		Name:  "YAML-KEYS",
		IR:    "ast",
		Props: []string{"C18"},
		Floor: 15, // keys: Generic 2, Area 3, Relation 3, Collection 3 = 11; dispatch: 4
		Doc: "every key a feature's MarshalYAML map writes is a key of the struct the YAML importer decodes into, " +
			"and the importer's loop tests the reader field of a key that identifies each writer's kind",
		Run: runYAMLKeys,
	})
}

type jYAMLWriter struct {
	fd      *ast.FuncDecl
	name    string
	keys    []string             // in source order, unique
	pos     map[string]token.Pos // first occurrence
	uncond  map[string]bool      // written in the composite literal itself
	unknown []string
}

func runYAMLKeys(c *Ctx) []Obligation {
	p := c.Pkg("ingest")
	if p == nil {
		return nil
	}
	info := p.TypesInfo
	var out []Obligation

	// reader struct and dispatcher
	var readerT *types.Named
	var dispatcher *ast.FuncDecl
	var readerVar types.Object
	for _, fd := range c.FuncDecls(p) {
		ast.Inspect(fd.Body, func(n ast.Node) bool {
			call, ok := n.(*ast.CallExpr)
			if !ok || len(call.Args) != 1 {
				return true
			}
			f := calleeFunc(info, call)
			if f == nil || f.Pkg() == nil || !strings.HasPrefix(f.Pkg().Path(), "gopkg.in/yaml") || f.Name() != "Decode" {
				return true
			}
			u, ok := ast.Unparen(call.Args[0]).(*ast.UnaryExpr)
			if !ok || u.Op != token.AND {
				return true
			}
			id, ok := ast.Unparen(u.X).(*ast.Ident)
			if !ok {
				return true
			}
			if nt, ok := types.Unalias(info.TypeOf(id)).(*types.Named); ok {
				if _, isStruct := nt.Underlying().(*types.Struct); isStruct && nt.Obj().Pkg() == p.Types && readerT == nil {
					readerT, dispatcher, readerVar = nt, fd, info.ObjectOf(id)
				}
			}
			return true
		})
	}
	if readerT == nil {
		return []Obligation{{Key: "ingest.reader#1", Pos: "-", Status: Undecided, Detail: "no struct of package ingest is decoded with (*yaml.Decoder).Decode"}}
	}
	st := readerT.Underlying().(*types.Struct)
	readerKeys := map[string]string{} // key -> field name
	for i := 0; i < st.NumFields(); i++ {
		f := st.Field(i)
		if !f.Exported() {
			continue
		}
		key := strings.ToLower(f.Name())
		if tag, ok := reflect.StructTag(st.Tag(i)).Lookup("yaml"); ok {
			name := strings.Split(tag, ",")[0]
			if name == "-" {
				continue
			}
			if name != "" {
				key = name
			}
		}
		readerKeys[key] = f.Name()
	}
	var allKeys []string
	for k := range readerKeys {
		allKeys = append(allKeys, k)
	}
	sort.Strings(allKeys)

	// writers
	var writers []*jYAMLWriter
	for _, fd := range c.FuncDecls(p) {
		if fd.Recv == nil || fd.Name.Name != "MarshalYAML" {
			continue
		}
		w := &jYAMLWriter{fd: fd, name: c.FuncName(p, fd), pos: map[string]token.Pos{}, uncond: map[string]bool{}}
		isStringMap := func(t types.Type) bool {
			m, ok := t.Underlying().(*types.Map)
			if !ok {
				return false
			}
			b, ok := m.Key().Underlying().(*types.Basic)
			return ok && b.Kind() == types.String
		}
		// the returned map: a variable initialised with a map literal, or a literal returned directly
		var mapObj types.Object
		var lits []*ast.CompositeLit
		ast.Inspect(fd.Body, func(n ast.Node) bool {
			switch x := n.(type) {
			case *ast.AssignStmt:
				if x.Tok == token.DEFINE && len(x.Lhs) == 1 && len(x.Rhs) == 1 {
					if lit, ok := ast.Unparen(x.Rhs[0]).(*ast.CompositeLit); ok && isStringMap(info.TypeOf(lit)) {
						if id, ok := x.Lhs[0].(*ast.Ident); ok {
							mapObj = info.ObjectOf(id)
							lits = append(lits, lit)
						}
					}
				}
			case *ast.ReturnStmt:
				if len(x.Results) >= 1 {
					if lit, ok := ast.Unparen(x.Results[0]).(*ast.CompositeLit); ok && isStringMap(info.TypeOf(lit)) {
						lits = append(lits, lit)
					}
				}
			}
			return true
		})
		if len(lits) == 0 {
			continue // not a map writer (e.g. LatLngYAML writes a scalar)
		}
		if len(lits) > 1 {
			w.unknown = append(w.unknown, "more than one map literal")
		}
		add := func(e ast.Expr, uncond bool) {
			k, ok := jConstString(info, e)
			if !ok {
				w.unknown = append(w.unknown, c.Position(e.Pos())+": key "+types.ExprString(e)+" is not a constant string")
				return
			}
			if _, dup := w.pos[k]; !dup {
				w.keys = append(w.keys, k)
				w.pos[k] = e.Pos()
			}
			if uncond {
				w.uncond[k] = true
			}
		}
		for _, lit := range lits {
			for _, e := range lit.Elts {
				if kv, ok := e.(*ast.KeyValueExpr); ok {
					add(kv.Key, true)
				}
			}
		}
		ast.Inspect(fd.Body, func(n ast.Node) bool {
			as, ok := n.(*ast.AssignStmt)
			if !ok {
				return true
			}
			for _, l := range as.Lhs {
				if ix, ok := ast.Unparen(l).(*ast.IndexExpr); ok {
					if id, ok := ast.Unparen(ix.X).(*ast.Ident); ok && mapObj != nil && info.ObjectOf(id) == mapObj {
						add(ix.Index, false)
					}
				}
			}
			return true
		})
		writers = append(writers, w)
	}

	writtenBy := map[string]int{}
	uncondBy := map[string]int{}
	for _, w := range writers {
		for _, k := range w.keys {
			writtenBy[k]++
			if w.uncond[k] {
				uncondBy[k]++
			}
		}
	}

	// nil tests in the dispatcher: `y.F != nil` as an if condition
	tested := map[string]token.Pos{}
	ast.Inspect(dispatcher.Body, func(n ast.Node) bool {
		ifs, ok := n.(*ast.IfStmt)
		if !ok {
			return true
		}
		b, ok := ast.Unparen(ifs.Cond).(*ast.BinaryExpr)
		if !ok || b.Op != token.NEQ {
			return true
		}
		if tv, ok := info.Types[ast.Unparen(b.Y)]; !ok || !tv.IsNil() {
			return true
		}
		sel, ok := ast.Unparen(b.X).(*ast.SelectorExpr)
		if !ok {
			return true
		}
		if id, ok := ast.Unparen(sel.X).(*ast.Ident); ok && info.ObjectOf(id) == readerVar {
			tested[sel.Sel.Name] = ifs.Pos()
		}
		return true
	})

	for _, w := range writers {
		ord := 0
		if len(w.unknown) > 0 {
			ord++
			out = append(out, Obligation{Key: fmt.Sprintf("%s#%d", w.name, ord), Pos: c.Position(w.fd.Pos()), Status: Undecided, Detail: strings.Join(w.unknown, "; ")})
		}
		for _, k := range w.keys {
			ord++
			ob := Obligation{Key: fmt.Sprintf("%s#%d", w.name, ord), Pos: c.Position(w.pos[k])}
			if f, ok := readerKeys[k]; ok {
				ob.Status = OK
				ob.Detail = fmt.Sprintf("key %q is read into %s.%s", k, readerT.Obj().Name(), f)
			} else {
				ob.Status = Violation
				ob.Detail = fmt.Sprintf("key %q written by %s is not a key of %s (keys: %s): the importer drops it (yaml.v2 ignores unknown keys) and the feature is not reproduced",
					k, w.name, readerT.Obj().Name(), strings.Join(allKeys, ", "))
			}
			out = append(out, ob)
		}
		// dispatch
		ord++
		ob := Obligation{Key: fmt.Sprintf("%s#%d", w.name, ord), Pos: c.Position(w.fd.Pos())}
		var own, shared []string
		for _, k := range w.keys {
			if writtenBy[k] == 1 {
				own = append(own, k)
			} else if uncondBy[k] != len(writers) {
				shared = append(shared, k)
			}
		}
		cands := own
		if len(cands) == 0 {
			cands = shared
		}
		hit := ""
		for _, k := range cands {
			if f, ok := readerKeys[k]; ok {
				if _, ok := tested[f]; ok {
					hit = fmt.Sprintf("key %q: `%s.%s != nil` at %s", k, readerVar.Name(), f, c.Position(tested[f]))
					break
				}
			}
		}
		switch {
		case len(cands) == 0:
			ob.Status = Undecided
			ob.Detail = fmt.Sprintf("writer %s has no key that identifies its kind", w.name)
		case hit != "":
			ob.Status = OK
			ob.Detail = fmt.Sprintf("%s dispatches on %s", c.FuncName(p, dispatcher), hit)
		default:
			ob.Status = Violation
			ob.Detail = fmt.Sprintf("%s never tests the reader field of %s, the key(s) that identify what %s writes: such features are decoded and then not added",
				c.FuncName(p, dispatcher), strings.Join(cands, "/"), w.name)
		}
		out = append(out, ob)
	}
	return out
}
