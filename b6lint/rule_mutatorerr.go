package main

import (
	"fmt"
	"go/types"
	"sort"

	"golang.org/x/tools/go/ssa"
)

// MUTATOR-ERR (C26): a change that could not modify a feature does not report success.
//
// Instances (by type, SSA): every call of a method that ingest.MutableWorld declares itself and
// that returns an error (AddFeature, AddTag, RemoveTag, and the EachModified… enumerators) — the
// interface method or the method of a type implementing the interface — made
//   - inside an implementation of ingest.Change.Apply (or a function literal of one), or
//   - inside a function of package api/functions (the evaluation callbacks and their helpers).
//
// Key pkg.(Recv).Func#N, N-th such call of the declaration in source order.
//
// Obligation: the one of APPLY-ERR, on the error result of the call (the two checkers are shared,
// see rule_applyerr.go):
//   - def-use: the error reaches a `return` operand of type error, or a nil test whose error edge
//     is a closed region in which every return yields a non-nil error (or an HTTP error is written);
//     a discarded result (`w.AddTag(id, tag)` as a statement), a dead assignment, or an error that
//     is only logged is a violation;
//   - path: assuming the call failed, no path from it loses the error before it is returned. In
//     particular `var err error; for … { if err = w.AddTag(…); err != nil { continue } … };
//     return …, err` is a violation: the next iteration's call overwrites the error (through the
//     loop's phi node) and a later success makes the whole change report success.
//
// Accepted idioms: `if err := w.M(…); err != nil { return …, err }`; `err = w.M(…)` on several
// branches followed by one `if err != nil { return …, err }` (ingestedYAML.Apply); wrapping with
// fmt.Errorf; leaving a loop with break and returning the error after it. Undecided: error kept
// in a captured/address-taken variable, error edge that only panics.
func init() {
	register(&Rule{
		Name:  "MUTATOR-ERR",
		IR:    "ssa",
		Props: []string{"C26"},
		// ingest.(*AddFeatures).Apply#1, (AddTags).Apply#1, (RemoveTags).Apply#1, (ingestedYAML).Apply#1..#6
		Floor: 9,
		Doc: "for every call of an error-returning method of ingest.MutableWorld (AddFeature, AddTag, RemoveTag, …; interface method and implementations, resolved by type) made inside an implementation of " +
			"ingest.Change.Apply or inside package api/functions: the error reaches a return operand of type error or a closed nil test whose error edge returns a non-nil error, " +
			"and no path from a failed call loses the error (discarded, dead, only logged, or overwritten by the same call in a later loop iteration) before it is returned",
		Run: runMutatorErr,
	})
}

// iWorldErrMethod: a method MutableWorld declares itself whose results include an error, on the
// interface or on an implementing type.
func (t *iTypes) iWorldErrMethod(f *types.Func) bool {
	if f == nil {
		return false
	}
	errT := types.Universe.Lookup("error").Type()
	for i := 0; i < t.mworld.NumExplicitMethods(); i++ {
		m := t.mworld.ExplicitMethod(i)
		if m.Name() != f.Name() {
			continue
		}
		res := m.Type().(*types.Signature).Results()
		for j := 0; j < res.Len(); j++ {
			if types.Identical(res.At(j).Type(), errT) {
				return iMethodOf(f, t.mworld, f.Name())
			}
		}
	}
	return false
}

func runMutatorErr(c *Ctx) []Obligation {
	t, err := iLoadTypes(c)
	if err != nil {
		return iAnchorFailure(err)
	}
	c.BuildSSA()
	errT := types.Universe.Lookup("error").Type()
	var out []Obligation
	for _, p := range c.SortedPkgs() {
		inFunctions := relPkg(p) == "api/functions"
		for _, fd := range c.FuncDecls(p) {
			obj, _ := p.TypesInfo.Defs[fd.Name].(*types.Func)
			if obj == nil || !(inFunctions || t.iIsApplyImpl(obj)) {
				continue
			}
			top := c.SSAFunc(obj)
			if top == nil {
				continue
			}
			var sites []iErrSite
			for _, fn := range iFuncTree(top) {
				for _, ci := range iCalls(fn) {
					callee := iCalleeOfCommon(ci.instr.Common())
					if callee == nil || !t.iWorldErrMethod(callee) {
						continue
					}
					sites = append(sites, iErrSite{ci.instr, fn, iErrIndex(callee.Type().(*types.Signature), errT), callee.FullName()})
				}
			}
			sort.SliceStable(sites, func(i, j int) bool { return sites[i].call.Pos() < sites[j].call.Pos() })
			name := c.FuncName(p, fd)
			for n, s := range sites {
				ob := Obligation{Key: fmt.Sprintf("%s#%d", name, n+1), Pos: c.Position(s.call.Pos())}
				if _, isVal := s.call.(ssa.Value); !isVal {
					ob.Status, ob.Detail = Violation, "the call is deferred or started as a goroutine: its error is discarded"
				} else {
					ob.Status, ob.Detail = iCheckErrUse(c, s, errT)
					if ob.Status == OK {
						if st, why, path := iErrDropPath(c, s, errT); st != OK {
							ob.Status, ob.Detail, ob.Path = st, why, path
						}
					}
				}
				ob.Detail = fmt.Sprintf("error result of %s called at %s: %s", s.what, ob.Pos, ob.Detail)
				out = append(out, ob)
			}
		}
	}
	return out
}
