package main

import (
	"fmt"
	"go/token"
	"go/types"
	"sort"
	"strings"

	"golang.org/x/tools/go/ssa"
)

// LAZY-VIEW (C12, C16): an overlay world hands out lazy views of base features: values of the
// wrapper types that keep a reference to the world's table of plain-tag modifications and consult
// it only when their tags are read. While such a view is still going to be read, the table must
// not be edited: the view would then show the edited state, not the state it was taken in (the
// copy made from it bakes the wrong tags into the overlay, which then shadows the base feature).
//
// Discovery, by type and shape only:
//   - tag layer L: a named type with the method WrapFeature(b6.Feature) b6.Feature (ModifiedTags);
//   - holders: struct types other than worlds with a field of type L (the wrappers
//     modifiedTagsFeature, modifiedPhysicalFeature, modifiedTagsArea, ..., and the iterators
//     modifiedTagsFeatures, ... that produce them);
//   - worlds: struct types whose pointer implements b6.World with a field `base` and a field of
//     type L (MutableOverlayWorld, MutableTagsOverlayWorld).
//
// On SSA, with summaries over the whole module (static callees, and for interface calls every
// module implementation of the method), a value "is a view over the layer of parameter i" when it
// is, contains or yields (slice element, iterator result, appended slice, struct field) a holder
// whose L field was filled from parameter i, from the L field of parameter i, or from a callee
// that returns such a view for the corresponding argument. Subjects are the methods of a world
// that contain both a call whose result is a view over the receiver's own layer (the definition,
// e.g. `references := allReferences(f, m)`, `base := m.tags.WrapFeature(..)`, m.FindFeatureByID)
// and an edit of that layer. One obligation per definition:
//
//	no edit of the receiver's layer may lie on a control-flow path between the definition and a
//	later reading use of the view.
//
// Edits: a map store into / delete from the receiver's L field or one of its per-feature maps, a
// call of a method of L that stores into or deletes from its receiver, a call of a method of the
// same world on the same receiver that does one of these (transitively). Reading uses of the view
// or of a value taken from it (element, range variable, type assertion): a method of b6.Taggable
// (Get, AllTags) invoked on it; passing it to a module function that (summaries to depth 4) does
// so with that parameter or lets it escape; passing it to a dynamic or external callee. Identity,
// geometry and reference accessors (FeatureID(), ...) are not reading uses, so clearing the
// entries of copied referrers after the copy is accepted, as is today's
// delete(m.tags, f.FeatureID()) after modified.Update, and an edit in a branch that does not
// read the view afterwards (AddTag/RemoveTag record the plain edit only where no copy is made).
func init() {
	register(&Rule{
		Name:  "LAZY-VIEW",
		IR:    "ssa",
		Props: []string{"C12", "C16"},
		Floor: 3, // MutableOverlayWorld.AddFeature#1 (references), AddTag#1 (base), RemoveTag#1 (base)
		Doc: "in a method of an overlay world no edit of the world's table of plain-tag modifications lies on a path between the point where a lazy view of a base feature " +
			"(a wrapper that reads that table only when its tags are read) is obtained and a later use that reads the view's tags",
		Run: runLazyView,
	})
}

type eLVPair struct {
	over map[int]bool // the value may be/contain a view over the layer of parameter i
	cont map[int]bool // the value may be/contain (part of) parameter i
}

func eNewPair() *eLVPair { return &eLVPair{over: map[int]bool{}, cont: map[int]bool{}} }

func (p *eLVPair) add(q *eLVPair) {
	for k := range q.over {
		p.over[k] = true
	}
	for k := range q.cont {
		p.cont[k] = true
	}
}

type eLV struct {
	c       *Ctx
	ifs     *eIfaces
	worlds  map[*types.Named]*eWorld
	sum     map[*ssa.Function]*eLVPair
	busy    map[*ssa.Function]bool
	reads   map[string]int // fn/param -> 1 in progress/no, 2 yes
	mutL    map[*ssa.Function]int
	implsOf map[string][]*ssa.Function
	named   []*types.Named
	holders []*types.Named
	hold    map[types.Type]int // canHold memo: 1 no / in progress, 2 yes
}

// canHold: can a value of this type be, point to or contain a holder? (FeatureIDs, tags, errors,
// the mutable ingest.Feature copies cannot, whatever they were computed from)
func (lv *eLV) canHold(t types.Type) bool {
	if t == nil {
		return false
	}
	switch lv.hold[t] {
	case 1:
		return false
	case 2:
		return true
	}
	lv.hold[t] = 1
	r := false
	switch u := t.Underlying().(type) {
	case *types.Basic, *types.Signature:
		r = false
	case *types.Interface:
		for _, h := range lv.holders {
			if types.Implements(h, u) || types.Implements(types.NewPointer(h), u) {
				r = true
				break
			}
		}
	case *types.Pointer:
		r = lv.canHold(u.Elem())
	case *types.Slice:
		r = lv.canHold(u.Elem())
	case *types.Array:
		r = lv.canHold(u.Elem())
	case *types.Chan:
		r = lv.canHold(u.Elem())
	case *types.Map:
		r = lv.canHold(u.Elem()) || lv.canHold(u.Key())
	case *types.Struct:
		if lv.holderField(t) >= 0 {
			r = true
		}
		for i := 0; i < u.NumFields() && !r; i++ {
			r = lv.canHold(u.Field(i).Type())
		}
	case *types.Tuple:
		for i := 0; i < u.Len() && !r; i++ {
			r = lv.canHold(u.At(i).Type())
		}
	default:
		r = true // opaque types of the SSA form (range iterators)
	}
	if r {
		lv.hold[t] = 2
	}
	return r
}

func (lv *eLV) isLayer(t types.Type) bool {
	n := namedOf(t)
	if n == nil {
		return false
	}
	if _, isPtr := t.Underlying().(*types.Pointer); isPtr {
		return false
	}
	return eHasWrapFeature(n, lv.ifs) != nil
}

// holderField: t is a struct (not a world) with a field of layer type; returns its index.
func (lv *eLV) holderField(t types.Type) int {
	n := namedOf(t)
	if n == nil || lv.worlds[n] != nil {
		return -1
	}
	st, ok := n.Underlying().(*types.Struct)
	if !ok {
		return -1
	}
	for i := 0; i < st.NumFields(); i++ {
		if lv.isLayer(st.Field(i).Type()) {
			return i
		}
	}
	return -1
}

func eParamIndex(fn *ssa.Function, v ssa.Value) int {
	for i, p := range fn.Params {
		if ssa.Value(p) == v {
			return i
		}
	}
	return -1
}

func eStripConv(v ssa.Value) ssa.Value {
	for {
		switch x := v.(type) {
		case *ssa.MakeInterface:
			v = x.X
		case *ssa.ChangeInterface:
			v = x.X
		case *ssa.ChangeType:
			v = x.X
		default:
			return v
		}
	}
}

// storedInto collects the values stored into addresses derived from an allocation.
func eStoredInto(a *ssa.Alloc, field int) []ssa.Value {
	var out []ssa.Value
	var walk func(addr ssa.Value, top bool)
	seen := map[ssa.Value]bool{}
	walk = func(addr ssa.Value, top bool) {
		if seen[addr] {
			return
		}
		seen[addr] = true
		refs := addr.Referrers()
		if refs == nil {
			return
		}
		for _, r := range *refs {
			switch x := r.(type) {
			case *ssa.Store:
				if x.Addr == addr && (field < 0 || !top) {
					out = append(out, x.Val)
				}
			case *ssa.FieldAddr:
				if x.X == addr && (field < 0 || !top || x.Field == field) {
					walk(x, false)
				}
			case *ssa.IndexAddr:
				if x.X == addr && field < 0 {
					walk(x, false)
				}
			}
		}
	}
	walk(a, true)
	return out
}

// bound: which parameter's layer does the value denote? (a parameter itself: a world, a layer or
// a holder; the L field of a parameter; a freshly built holder whose L field was so filled)
func (lv *eLV) bound(fn *ssa.Function, v ssa.Value, depth int) map[int]bool {
	out := map[int]bool{}
	if depth > 6 {
		return out
	}
	v = eStripConv(v)
	if i := eParamIndex(fn, v); i >= 0 {
		out[i] = true
		return out
	}
	switch x := v.(type) {
	case *ssa.UnOp:
		if x.Op != token.MUL {
			return out
		}
		if fa, ok := x.X.(*ssa.FieldAddr); ok && lv.isLayer(x.Type()) {
			base := eStripConv(fa.X)
			if i := eParamIndex(fn, base); i >= 0 {
				out[i] = true
			} else if u, ok := base.(*ssa.UnOp); ok && u.Op == token.MUL {
				if i := eParamIndex(fn, u.X); i >= 0 {
					out[i] = true
				}
			}
		}
	case *ssa.Field:
		if lv.isLayer(x.Type()) {
			if i := eParamIndex(fn, eStripConv(x.X)); i >= 0 {
				out[i] = true
			}
		}
	case *ssa.Alloc:
		if hf := lv.holderField(x.Type()); hf >= 0 {
			for _, val := range eStoredInto(x, hf) {
				for k := range lv.bound(fn, val, depth+1) {
					out[k] = true
				}
			}
		}
	case *ssa.Phi:
		for _, e := range x.Edges {
			for k := range lv.bound(fn, e, depth+1) {
				out[k] = true
			}
		}
	}
	return out
}

// impls: module functions that may be called by an interface method call.
func (lv *eLV) impls(recv types.Type, m *types.Func) []*ssa.Function {
	it, ok := recv.Underlying().(*types.Interface)
	if !ok {
		return nil
	}
	key := types.TypeString(recv, nil) + "." + m.Name()
	if r, ok := lv.implsOf[key]; ok {
		return r
	}
	var out []*ssa.Function
	for _, n := range lv.named {
		for _, t := range []types.Type{n, types.NewPointer(n)} {
			if _, isIface := n.Underlying().(*types.Interface); isIface || !types.Implements(t, it) {
				continue
			}
			sel := lv.c.Prog.MethodSets.MethodSet(t).Lookup(m.Pkg(), m.Name())
			if sel == nil {
				continue
			}
			if f := lv.c.Prog.MethodValue(sel); f != nil && len(f.Blocks) > 0 {
				out = append(out, f)
			}
			break
		}
	}
	lv.implsOf[key] = out
	return out
}

// callees of a call instruction together with the argument list aligned with callee.Params.
func (lv *eLV) callees(cc *ssa.CallCommon) ([]*ssa.Function, []ssa.Value) {
	if cc.IsInvoke() {
		return lv.impls(cc.Value.Type(), cc.Method), append([]ssa.Value{cc.Value}, cc.Args...)
	}
	if f := cc.StaticCallee(); f != nil {
		return []*ssa.Function{f}, cc.Args
	}
	return nil, cc.Args
}

type eLVFrame struct {
	lv   *eLV
	fn   *ssa.Function
	memo map[ssa.Value]*eLVPair
}

// pair computes what a value may be or contain.
func (fr *eLVFrame) pair(v ssa.Value, depth int) *eLVPair {
	if p, ok := fr.memo[v]; ok {
		return p
	}
	p := eNewPair()
	fr.memo[v] = p // cycles (phi) see the partial result
	if v == nil || depth > 40 {
		return p
	}
	lv, fn := fr.lv, fr.fn
	if !lv.canHold(v.Type()) {
		return p
	}
	if i := eParamIndex(fn, v); i >= 0 {
		p.cont[i] = true
		return p
	}
	root := func(addr ssa.Value) {
		// the container an address points into
		for d := 0; d < 12; d++ {
			switch x := addr.(type) {
			case *ssa.FieldAddr:
				addr = x.X
				continue
			case *ssa.IndexAddr:
				addr = x.X
				continue
			}
			break
		}
		p.add(fr.pair(addr, depth+1))
	}
	switch x := v.(type) {
	case *ssa.Alloc:
		if hf := lv.holderField(x.Type()); hf >= 0 {
			for _, val := range eStoredInto(x, hf) {
				for k := range lv.bound(fn, val, 0) {
					p.over[k] = true
				}
			}
		}
		for _, val := range eStoredInto(x, -1) {
			p.add(fr.pair(val, depth+1))
		}
	case *ssa.MakeInterface:
		p.add(fr.pair(x.X, depth+1))
	case *ssa.ChangeInterface:
		p.add(fr.pair(x.X, depth+1))
	case *ssa.ChangeType:
		p.add(fr.pair(x.X, depth+1))
	case *ssa.Convert:
		p.add(fr.pair(x.X, depth+1))
	case *ssa.TypeAssert:
		p.add(fr.pair(x.X, depth+1))
	case *ssa.Extract:
		p.add(fr.pair(x.Tuple, depth+1))
	case *ssa.Slice:
		p.add(fr.pair(x.X, depth+1))
	case *ssa.Phi:
		for _, e := range x.Edges {
			p.add(fr.pair(e, depth+1))
		}
	case *ssa.UnOp:
		if x.Op == token.MUL {
			root(x.X)
		}
	case *ssa.FieldAddr:
		root(x)
	case *ssa.IndexAddr:
		root(x)
	case *ssa.Field:
		p.add(fr.pair(x.X, depth+1))
	case *ssa.Index:
		p.add(fr.pair(x.X, depth+1))
	case *ssa.Lookup:
		p.add(fr.pair(x.X, depth+1))
	case *ssa.Range:
		p.add(fr.pair(x.X, depth+1))
	case *ssa.Next:
		p.add(fr.pair(x.Iter, depth+1))
	case *ssa.Call:
		cc := x.Common()
		if b, ok := cc.Value.(*ssa.Builtin); ok && !cc.IsInvoke() {
			if b.Name() == "append" {
				for _, a := range cc.Args {
					p.add(fr.pair(a, depth+1))
				}
			}
			break
		}
		gs, args := lv.callees(cc)
		for _, g := range gs {
			s := lv.summary(g)
			for i := range s.over {
				if i < len(args) {
					for k := range lv.bound(fn, args[i], 0) {
						p.over[k] = true
					}
					// a view over the layer of a view that the argument contains
					for k := range fr.pair(args[i], depth+1).over {
						p.over[k] = true
					}
				}
			}
			for i := range s.cont {
				if i < len(args) {
					p.add(fr.pair(args[i], depth+1))
				}
			}
		}
	}
	return p
}

// summary: what the results of a function may be or contain, in terms of its parameters.
func (lv *eLV) summary(g *ssa.Function) *eLVPair {
	if s, ok := lv.sum[g]; ok {
		return s
	}
	s := eNewPair()
	if len(g.Blocks) == 0 || lv.busy[g] {
		return s
	}
	lv.busy[g] = true
	fr := &eLVFrame{lv: lv, fn: g, memo: map[ssa.Value]*eLVPair{}}
	for _, b := range g.Blocks {
		if ret, ok := b.Instrs[len(b.Instrs)-1].(*ssa.Return); ok {
			for _, r := range ret.Results {
				s.add(fr.pair(r, 0))
			}
		}
	}
	delete(lv.busy, g)
	lv.sum[g] = s
	return s
}

// derived: the values taken from v inside its function (the value itself, conversions, elements,
// range variables, loads from locals it was stored into).
func eDerivedFrom(v ssa.Value) map[ssa.Value]bool {
	d := map[ssa.Value]bool{}
	work := []ssa.Value{v}
	add := func(x ssa.Value) {
		if x != nil && !d[x] {
			d[x] = true
			work = append(work, x)
		}
	}
	d[v] = true
	for len(work) > 0 {
		x := work[0]
		work = work[1:]
		refs := x.Referrers()
		if refs == nil {
			continue
		}
		for _, r := range *refs {
			switch y := r.(type) {
			case *ssa.MakeInterface, *ssa.ChangeInterface, *ssa.ChangeType, *ssa.TypeAssert, *ssa.Phi, *ssa.Slice,
				*ssa.IndexAddr, *ssa.Index, *ssa.Field, *ssa.FieldAddr, *ssa.Lookup, *ssa.Range, *ssa.Next, *ssa.Extract:
				add(y.(ssa.Value))
			case *ssa.UnOp:
				if y.Op == token.MUL {
					add(y)
				}
			case *ssa.Store:
				if y.Val == x {
					if a, ok := y.Addr.(*ssa.Alloc); ok {
						for _, ar := range *a.Referrers() {
							if u, ok := ar.(*ssa.UnOp); ok && u.Op == token.MUL {
								add(u)
							}
						}
					} else if ia, ok := y.Addr.(*ssa.IndexAddr); ok {
						// stored into an array that is then sliced (variadic / append argument)
						add(ia.X)
					}
				}
			case *ssa.Call:
				if b, ok := y.Common().Value.(*ssa.Builtin); ok && b.Name() == "append" {
					add(y)
				}
			}
		}
	}
	return d
}

// readUse: does the instruction read the tags of a value in d (or hand it to code that may)?
func (lv *eLV) readUse(in ssa.Instruction, d map[ssa.Value]bool, depth int) (bool, string) {
	call, ok := in.(ssa.CallInstruction)
	if !ok {
		if st, ok := in.(*ssa.Store); ok && d[st.Val] {
			switch st.Addr.(type) {
			case *ssa.Alloc, *ssa.IndexAddr:
			default:
				return true, "is stored where the rule cannot follow it"
			}
		}
		if _, ok := in.(*ssa.MakeClosure); ok {
			for _, op := range in.Operands(nil) {
				if *op != nil && d[*op] {
					return true, "is captured by a closure"
				}
			}
		}
		return false, ""
	}
	cc := call.Common()
	if _, isBuiltin := cc.Value.(*ssa.Builtin); isBuiltin && !cc.IsInvoke() {
		return false, ""
	}
	if cc.IsInvoke() && d[cc.Value] {
		for i := 0; i < lv.ifs.taggable.NumMethods(); i++ {
			t := lv.ifs.taggable.Method(i)
			if t.Name() == cc.Method.Name() && types.Identical(t.Type(), cc.Method.Type()) {
				return true, "has its tags read by ." + cc.Method.Name()
			}
		}
	}
	gs, args := lv.callees(cc)
	for i, a := range args {
		if !d[a] || (cc.IsInvoke() && i == 0) {
			continue
		}
		if len(gs) == 0 {
			return true, "is passed to a dynamic or external callee"
		}
		for _, g := range gs {
			if i < len(g.Params) && lv.readsParam(g, i, depth+1) {
				return true, "is passed to " + g.Name() + ", which reads its tags"
			}
		}
	}
	return false, ""
}

// readsParam: may the function read the tags of its parameter i (or of what it contains)?
func (lv *eLV) readsParam(g *ssa.Function, i int, depth int) bool {
	if len(g.Blocks) == 0 || depth > 4 {
		return true
	}
	key := fmt.Sprintf("%s/%d", g.String(), i)
	switch lv.reads[key] {
	case 1:
		return false
	case 2:
		return true
	}
	lv.reads[key] = 1
	d := eDerivedFrom(g.Params[i])
	for _, b := range g.Blocks {
		for _, in := range b.Instrs {
			if ok, _ := lv.readUse(in, d, depth); ok {
				lv.reads[key] = 2
				return true
			}
		}
	}
	return false
}

// layerDerived: the map value is the layer held in `holder` or one of its per-feature maps.
func eLayerDerived(v ssa.Value, isLayerValue func(ssa.Value) bool, depth int) bool {
	if depth > 8 || v == nil {
		return false
	}
	if isLayerValue(v) {
		return true
	}
	switch x := v.(type) {
	case *ssa.Lookup:
		return eLayerDerived(x.X, isLayerValue, depth+1)
	case *ssa.Extract:
		return eLayerDerived(x.Tuple, isLayerValue, depth+1)
	case *ssa.Phi:
		for _, e := range x.Edges {
			if eLayerDerived(e, isLayerValue, depth+1) {
				return true
			}
		}
	case *ssa.ChangeType:
		return eLayerDerived(x.X, isLayerValue, depth+1)
	case *ssa.UnOp:
		if x.Op == token.MUL {
			if a, ok := x.X.(*ssa.Alloc); ok {
				for _, r := range *a.Referrers() {
					if st, ok := r.(*ssa.Store); ok && st.Addr == ssa.Value(a) && eLayerDerived(st.Val, isLayerValue, depth+1) {
						return true
					}
				}
			}
		}
	}
	return false
}

// edits: is the instruction an edit of the layer identified by isLayerValue? recv: the world
// receiver (nil inside methods of the layer type itself).
func (lv *eLV) edits(in ssa.Instruction, isLayerValue func(ssa.Value) bool, recv ssa.Value) (bool, string) {
	switch x := in.(type) {
	case *ssa.MapUpdate:
		if eLayerDerived(x.Map, isLayerValue, 0) {
			return true, "map store"
		}
	case ssa.CallInstruction:
		cc := x.Common()
		if b, ok := cc.Value.(*ssa.Builtin); ok && !cc.IsInvoke() {
			if b.Name() == "delete" && len(cc.Args) == 2 && eLayerDerived(cc.Args[0], isLayerValue, 0) {
				return true, "delete"
			}
			return false, ""
		}
		g := cc.StaticCallee()
		if g == nil || g.Signature.Recv() == nil || len(cc.Args) == 0 {
			return false, ""
		}
		if lv.isLayer(g.Signature.Recv().Type()) && eLayerDerived(cc.Args[0], isLayerValue, 0) && lv.mutatesOwn(g) {
			return true, "call of the mutating method " + g.Name()
		}
		if recv != nil && cc.Args[0] == recv && lv.mutatesOwn(g) {
			return true, "call of " + g.Name() + ", which edits the table"
		}
	}
	return false, ""
}

// mutatesOwn: a method of the layer type that edits its receiver, or a method of a world that
// edits the layer in its receiver.
func (lv *eLV) mutatesOwn(g *ssa.Function) bool {
	switch lv.mutL[g] {
	case 1:
		return false
	case 2:
		return true
	}
	lv.mutL[g] = 1
	if len(g.Blocks) == 0 || len(g.Params) == 0 {
		return false
	}
	recv := ssa.Value(g.Params[0])
	var isLayerValue func(ssa.Value) bool
	var worldRecv ssa.Value
	if lv.isLayer(recv.Type()) {
		isLayerValue = func(v ssa.Value) bool { return v == recv }
	} else if w := lv.worlds[namedOf(recv.Type())]; w != nil && w.tags != nil {
		idx := eFieldIndex(w.st, w.tags)
		isLayerValue = func(v ssa.Value) bool { return eSSAFieldOfRecv(v) == idx && lv.isLayer(v.Type()) }
		worldRecv = recv
	} else {
		return false
	}
	for _, b := range g.Blocks {
		for _, in := range b.Instrs {
			if ok, _ := lv.edits(in, isLayerValue, worldRecv); ok {
				lv.mutL[g] = 2
				return true
			}
		}
	}
	return false
}

// eInstrReaches: b can execute after a.
func eInstrReaches(a, b ssa.Instruction) bool {
	if a.Block() == b.Block() {
		ia, ib := -1, -1
		for i, in := range a.Block().Instrs {
			if in == a {
				ia = i
			}
			if in == b {
				ib = i
			}
		}
		if ia < ib {
			return true
		}
	}
	seen := map[*ssa.BasicBlock]bool{}
	work := append([]*ssa.BasicBlock(nil), a.Block().Succs...)
	for len(work) > 0 {
		x := work[0]
		work = work[1:]
		if seen[x] {
			continue
		}
		seen[x] = true
		if x == b.Block() {
			return true
		}
		work = append(work, x.Succs...)
	}
	return false
}

func runLazyView(c *Ctx) []Obligation {
	ifs := eLoadIfaces(c)
	if !ifs.ok() {
		return []Obligation{{Key: "b6.World#1", Pos: "-", Status: Undecided, Detail: "interfaces of package b6 not found"}}
	}
	c.BuildSSA()
	lv := &eLV{c: c, ifs: ifs, worlds: map[*types.Named]*eWorld{}, sum: map[*ssa.Function]*eLVPair{}, busy: map[*ssa.Function]bool{},
		reads: map[string]int{}, mutL: map[*ssa.Function]int{}, implsOf: map[string][]*ssa.Function{}, hold: map[types.Type]int{}}
	worlds := eWorldTypes(c, ifs)
	for _, w := range worlds {
		lv.worlds[w.named] = w
	}
	for _, p := range c.SortedPkgs() {
		scope := p.Types.Scope()
		for _, name := range scope.Names() {
			if tn, ok := scope.Lookup(name).(*types.TypeName); ok && !tn.IsAlias() {
				if n, ok := tn.Type().(*types.Named); ok && n.TypeParams().Len() == 0 {
					lv.named = append(lv.named, n)
					if lv.holderField(n) >= 0 {
						lv.holders = append(lv.holders, n)
					}
				}
			}
		}
	}
	var out []Obligation
	for _, w := range worlds {
		if w.tags == nil {
			continue
		}
		tagsIdx := eFieldIndex(w.st, w.tags)
		for _, fd := range eMethods(c, w.pkg, w.named) {
			obj, _ := w.pkg.TypesInfo.Defs[fd.Name].(*types.Func)
			if obj == nil {
				continue
			}
			fn := c.SSAFunc(obj)
			if fn == nil || len(fn.Blocks) == 0 || len(fn.Params) == 0 {
				continue
			}
			recv := ssa.Value(fn.Params[0])
			isLayerValue := func(v ssa.Value) bool { return eSSAFieldOfRecv(v) == tagsIdx && lv.isLayer(v.Type()) }
			type edit struct {
				in  ssa.Instruction
				how string
			}
			var edits []edit
			for _, b := range fn.Blocks {
				for _, in := range b.Instrs {
					if ok, how := lv.edits(in, isLayerValue, recv); ok {
						edits = append(edits, edit{in, how})
					}
				}
			}
			if len(edits) == 0 {
				continue
			}
			// definitions of views over the receiver's layer
			fr := &eLVFrame{lv: lv, fn: fn, memo: map[ssa.Value]*eLVPair{}}
			var defs []*ssa.Call
			for _, b := range fn.Blocks {
				for _, in := range b.Instrs {
					call, ok := in.(*ssa.Call)
					if !ok {
						continue
					}
					if _, isBuiltin := call.Common().Value.(*ssa.Builtin); isBuiltin {
						continue
					}
					if fr.pair(call, 0).over[0] {
						defs = append(defs, call)
					}
				}
			}
			sort.Slice(defs, func(i, j int) bool { return defs[i].Pos() < defs[j].Pos() })
			name := c.FuncName(w.pkg, fd)
			for i, def := range defs {
				ob := Obligation{Key: fmt.Sprintf("%s#%d", name, i+1), Pos: c.Position(def.Pos())}
				d := eDerivedFrom(def)
				type use struct {
					in  ssa.Instruction
					how string
				}
				var uses []use
				for _, b := range fn.Blocks {
					for _, in := range b.Instrs {
						if in == ssa.Instruction(def) {
							continue
						}
						if ok, how := lv.readUse(in, d, 0); ok {
							uses = append(uses, use{in, how})
						}
					}
				}
				what := fmt.Sprintf("the value of %s is a lazy view over %s.%s", eCallText(def), fn.Params[0].Name(), w.tags.Name())
				var bad []string
				for _, e := range edits {
					if !eInstrReaches(def, e.in) {
						continue
					}
					for _, u := range uses {
						if eInstrReaches(e.in, u.in) {
							bad = append(bad, fmt.Sprintf("the table is edited (%s) at %s, and afterwards the view %s at %s", e.how, c.Position(e.in.Pos()), u.how, c.Position(u.in.Pos())))
							break
						}
					}
				}
				if len(bad) > 0 {
					ob.Status = Violation
					ob.Detail = what + ", but " + bad[0] + ": the view then shows the edited table, not the tags the feature had when the view was taken"
					ob.Path = bad
				} else {
					ob.Status = OK
					var es []string
					for _, e := range edits {
						es = append(es, c.Position(e.in.Pos()))
					}
					ob.Detail = fmt.Sprintf("%s; none of the %d edits of the table in %s (%s) is followed by a use that reads the view (%d reading uses)", what, len(edits), fd.Name.Name, strings.Join(es, ", "), len(uses))
				}
				out = append(out, ob)
			}
		}
	}
	return out
}

func eCallText(call *ssa.Call) string {
	cc := call.Common()
	if cc.IsInvoke() {
		return "the call of ." + cc.Method.Name()
	}
	if f := cc.StaticCallee(); f != nil {
		return "the call of " + f.Name()
	}
	return "a call"
}
