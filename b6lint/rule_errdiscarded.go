package main

import (
	"fmt"
	"go/ast"
	"go/types"
	"path/filepath"
	"strings"

	"golang.org/x/tools/go/packages"
)

// ERR-DISCARDED (C18): the YAML export/import code does not throw away the error of a module
// function.
//
// Slot: the functions declared in the files the property anchors — ingest/yaml.go and the root
// package's yaml.go (selected by file, because the property names the files) — and the module
// functions they reach by static calls to depth 2 (callees resolved through types; function
// literals belong to the declaration that contains them).
//
// Instances: inside the slot, every call of a *module function with a body* (declared in
// diagonal.works/b6/..., not an interface method, not a function value) whose last result is of
// type error. Obligation: the error result is not discarded at the call:
//   - violation: the call is an expression statement (all results dropped), or the error result
//     is assigned to the blank identifier (`v, _ := f()`, `_ = f()`);
//   - `defer f()` / `go f()` of such a function is `undecided` (none today);
//   - everything else binds or uses the error (assignment to a variable, `if err := f(); …`,
//     `return f()`, argument of another call) and is ok. Whether a bound error is then looked at is
//     not this rule's business.
//
// The same discards outside the slot are reported module-wide as info (never failing), so the
// size of the class is visible in the evidence.
func init() {
	register(&Rule{
		Name:  "ERR-DISCARDED",
		IR:    "ast",
		Props: []string{"C18"},
		Floor: 9, // calls of error-returning module functions inside the slot today (7 in ingest/yaml.go, 2 in b6.Less)
		Doc: "in the YAML export/import code (functions of ingest/yaml.go and yaml.go and the module functions they call, depth 2) the error result of a module function " +
			"is never assigned to the blank identifier nor dropped by calling the function as a statement",
		Run: runErrDiscarded,
	})
}

// jeErrCallee returns the module function with a body that call invokes, if its last result is error.
func jeErrCallee(c *Ctx, info *types.Info, call *ast.CallExpr) (*types.Func, int) {
	f := calleeFunc(info, call)
	if f == nil || f.Pkg() == nil || !strings.HasPrefix(f.Pkg().Path(), ModulePath) {
		return nil, 0
	}
	fd, _ := c.Decl(f)
	if fd == nil || fd.Body == nil {
		return nil, 0
	}
	sig := f.Type().(*types.Signature)
	n := sig.Results().Len()
	if n == 0 || !jIsError(sig.Results().At(n-1).Type()) {
		return nil, 0
	}
	return f, n
}

type jeSite struct {
	call    *ast.CallExpr
	callee  *types.Func
	discard string // "" when the error is kept; otherwise how it is dropped
	unknown string
}

// jeSites lists the calls of error-returning module functions in a body with their fate.
func jeSites(c *Ctx, p *packages.Package, body ast.Node) []jeSite {
	info := p.TypesInfo
	fate := map[*ast.CallExpr]*jeSite{}
	var order []*ast.CallExpr
	note := func(call *ast.CallExpr) *jeSite {
		if s, ok := fate[call]; ok {
			return s
		}
		f, _ := jeErrCallee(c, info, call)
		if f == nil {
			return nil
		}
		s := &jeSite{call: call, callee: f}
		fate[call] = s
		order = append(order, call)
		return s
	}
	ast.Inspect(body, func(n ast.Node) bool {
		switch x := n.(type) {
		case *ast.ExprStmt:
			if call, ok := ast.Unparen(x.X).(*ast.CallExpr); ok {
				if s := note(call); s != nil {
					s.discard = "called as a statement: every result, the error included, is dropped"
				}
			}
		case *ast.DeferStmt:
			if s := note(x.Call); s != nil {
				s.unknown = "deferred: the error cannot be seen by the caller"
			}
		case *ast.GoStmt:
			if s := note(x.Call); s != nil {
				s.unknown = "started as a goroutine: the error is lost"
			}
		case *ast.AssignStmt:
			if len(x.Rhs) == 1 {
				if call, ok := ast.Unparen(x.Rhs[0]).(*ast.CallExpr); ok {
					if s := note(call); s != nil {
						_, nres := jeErrCallee(c, info, call)
						if len(x.Lhs) == nres {
							if id, ok := x.Lhs[nres-1].(*ast.Ident); ok && id.Name == "_" {
								s.discard = "its error result is assigned to the blank identifier"
							}
						}
					}
				}
			} else {
				for i, r := range x.Rhs {
					if call, ok := ast.Unparen(r).(*ast.CallExpr); ok && i < len(x.Lhs) {
						if s := note(call); s != nil {
							if id, ok := x.Lhs[i].(*ast.Ident); ok && id.Name == "_" {
								s.discard = "its error result is assigned to the blank identifier"
							}
						}
					}
				}
			}
		case *ast.ValueSpec:
			if len(x.Values) == 1 {
				if call, ok := ast.Unparen(x.Values[0]).(*ast.CallExpr); ok {
					if s := note(call); s != nil {
						_, nres := jeErrCallee(c, info, call)
						if len(x.Names) == nres && x.Names[nres-1].Name == "_" {
							s.discard = "its error result is assigned to the blank identifier"
						}
					}
				}
			}
		case *ast.CallExpr:
			note(x) // any other position uses the results
		}
		return true
	})
	var out []jeSite
	for _, call := range order {
		out = append(out, *fate[call])
	}
	return out
}

func runErrDiscarded(c *Ctx) []Obligation {
	// slot roots: declarations in the anchored files
	isAnchorFile := func(p *packages.Package, fd *ast.FuncDecl) bool {
		name := c.Fset.PositionFor(fd.Pos(), false).Filename
		if filepath.Base(name) != "yaml.go" {
			return false
		}
		rel := relPkg(p)
		return rel == "b6" || rel == "ingest"
	}
	type member struct {
		p     *packages.Package
		fd    *ast.FuncDecl
		depth int
		via   string
	}
	slot := map[*ast.FuncDecl]*member{}
	var work []*member
	for _, rel := range []string{"", "ingest"} {
		p := c.Pkg(rel)
		if p == nil {
			continue
		}
		for _, fd := range c.FuncDecls(p) {
			if isAnchorFile(p, fd) {
				m := &member{p, fd, 0, ""}
				slot[fd] = m
				work = append(work, m)
			}
		}
	}
	for len(work) > 0 {
		m := work[0]
		work = work[1:]
		if m.depth >= 2 {
			continue
		}
		ast.Inspect(m.fd.Body, func(n ast.Node) bool {
			call, ok := n.(*ast.CallExpr)
			if !ok {
				return true
			}
			f := calleeFunc(m.p.TypesInfo, call)
			if f == nil {
				return true
			}
			fd, fp := c.Decl(f)
			if fd == nil || fd.Body == nil || slot[fd] != nil || jGenerated(c, fd.Pos()) {
				return true
			}
			via := c.FuncName(m.p, m.fd)
			if m.via != "" {
				via = m.via + " > " + via
			}
			nm := &member{fp, fd, m.depth + 1, via}
			slot[fd] = nm
			work = append(work, nm)
			return true
		})
	}

	var out []Obligation
	outside, outsideDiscards := 0, 0
	for _, p := range c.SortedPkgs() {
		for _, fd := range c.FuncDecls(p) {
			if jGenerated(c, fd.Pos()) {
				continue
			}
			name := c.FuncName(p, fd)
			m := slot[fd]
			ord := 0
			for _, s := range jeSites(c, p, fd.Body) {
				if m == nil {
					outside++
					if s.discard == "" && s.unknown == "" {
						continue
					}
					outsideDiscards++
					ord++
					why := s.discard
					if why == "" {
						why = s.unknown
					}
					out = append(out, Obligation{Key: fmt.Sprintf("%s#%d", name, ord), Pos: c.Position(s.call.Pos()), Status: Info,
						Detail: fmt.Sprintf("(outside the YAML import/export slot) %s: %s", jShort(types.ExprString(s.call)), why)})
					continue
				}
				ord++
				ob := Obligation{Key: fmt.Sprintf("%s#%d", name, ord), Pos: c.Position(s.call.Pos())}
				where := "declared in " + filepath.Base(c.Fset.PositionFor(fd.Pos(), false).Filename)
				if m.depth > 0 {
					where = fmt.Sprintf("reached from %s, depth %d", m.via, m.depth)
				}
				callee := s.callee.FullName()
				switch {
				case s.discard != "":
					ob.Status = Violation
					ob.Detail = fmt.Sprintf("%s (%s) calls %s and %s: a failure is silently taken for success", name, where, callee, s.discard)
				case s.unknown != "":
					ob.Status = Undecided
					ob.Detail = fmt.Sprintf("%s (%s) calls %s %s", name, where, callee, s.unknown)
				default:
					ob.Status = OK
					ob.Detail = fmt.Sprintf("%s (%s) keeps the error of %s", name, where, callee)
				}
				out = append(out, ob)
			}
		}
	}
	out = append(out, Obligation{Key: "b6.moduleWide#1", Pos: "-", Status: Info,
		Detail: fmt.Sprintf("outside the slot the module has %d calls of error-returning module functions with a body; %d of them discard the error (listed as info)", outside, outsideDiscards)})
	return out
}
