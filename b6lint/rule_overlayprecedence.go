package main

import (
	"fmt"
	"go/token"
	"go/types"

	"golang.org/x/tools/go/ssa"
)

// OVERLAY-PRECEDENCE (C16): in a layered world (a struct whose pointer implements b6.World, with a
// field `base` of type b6.World and an upper layer: another field whose type implements
// b6.FeaturesByID), each method of the interface b6.FeaturesByID (lookup FindFeatureByID, location
// FindLocationByID, existence HasFeatureWithID — taken from the interface's method set, not from
// text) answers from the upper layer when the upper layer has the feature and from the base
// otherwise.
//
// Decided on SSA. An upper consultation is a call on (or a map lookup in) a load of an upper field
// of the receiver whose key depends on the method's id parameter; a base consultation is a call on
// a load of the field base.
//
//   - Methods with a bool result (existence): the function is interpreted for every outcome of
//     its consultations; the result must be true whenever an upper consultation is true, and equal
//     to the base's answer when every upper consultation is false. `U || B` and `B || U` are both
//     accepted (same result); `B`, `U && B`, `U` alone are not.
//   - Other methods: there must be a presence test on an upper consultation u (`x != nil`,
//     `ok` of a comma-ok lookup, `err == nil`, or their negations / switch forms) such that
//     (1) the test dominates every base consultation and no base consultation is reachable from
//     the test's "present" edge (upper consulted first, base only on absence), (2) every return
//     reachable from the "present" edge returns a value computed from u (u itself, a component of
//     it, a wrapper call taking it), and (3) some return yields a value computed from a base
//     consultation (features only in the base still appear).
func init() {
	register(&Rule{
		Name:  "OVERLAY-PRECEDENCE",
		IR:    "ssa",
		Props: []string{"C16"},
		Floor: 6, // {OverlayWorld, MutableOverlayWorld} x {FindFeatureByID, FindLocationByID, HasFeatureWithID}
		Doc: "in every layered world (field base of type b6.World plus an upper layer implementing b6.FeaturesByID) the methods of b6.FeaturesByID " +
			"(lookup, location, existence) consult the upper layer first, return its answer when it has the feature, and fall back to the base only when it has not",
		Run: runOverlayPrecedence,
	})
}

func runOverlayPrecedence(c *Ctx) []Obligation {
	ifs := eLoadIfaces(c)
	if !ifs.ok() {
		return []Obligation{{Key: "b6.World#1", Pos: "-", Status: Undecided, Detail: "interfaces b6.World / b6.FeaturesByID not found"}}
	}
	c.BuildSSA()
	var out []Obligation
	for _, w := range eWorldTypes(c, ifs) {
		if len(w.upper) == 0 {
			continue // no feature layer above the base (e.g. a tags-only overlay): nothing can shadow
		}
		for i := 0; i < ifs.featuresByID.NumMethods(); i++ {
			name := ifs.featuresByID.Method(i).Name()
			obj, _, _ := types.LookupFieldOrMethod(types.NewPointer(w.named), true, w.pkg.Types, name)
			mfn, _ := obj.(*types.Func)
			if mfn == nil {
				continue
			}
			fd, p := c.Decl(mfn)
			if fd == nil || p == nil || fd.Body == nil {
				continue
			}
			if sig := mfn.Type().(*types.Signature); sig.Recv() == nil || namedOf(sig.Recv().Type()) != w.named {
				continue // promoted from an embedded type: decided on that type if it is layered
			}
			ob := Obligation{Key: c.FuncName(p, fd) + "#1", Pos: c.Position(fd.Pos())}
			fn := c.SSAFunc(mfn)
			if fn == nil || len(fn.Blocks) == 0 {
				ob.Status, ob.Detail = Undecided, "no SSA body for "+mfn.FullName()
				out = append(out, ob)
				continue
			}
			ob.Status, ob.Detail = ePrecedence(c, fn, w)
			out = append(out, ob)
		}
	}
	return out
}

type ePrecFacts struct {
	fn    *ssa.Function
	uCons []ssa.Value // upper consultations keyed by the id parameter
	bCons []ssa.Value // base consultations
}

func ePrecCollect(fn *ssa.Function, w *eWorld) *ePrecFacts {
	f := &ePrecFacts{fn: fn}
	var idParam ssa.Value
	if len(fn.Params) > 1 {
		idParam = fn.Params[1]
	}
	keyed := func(vs ...ssa.Value) bool {
		for _, v := range vs {
			if eDependsOn(v, func(x ssa.Value) bool { return x == idParam }) {
				return true
			}
		}
		return false
	}
	baseIdx := eFieldIndex(w.st, w.base)
	upper := map[int]bool{}
	for _, u := range w.upper {
		upper[eFieldIndex(w.st, u)] = true
	}
	for _, b := range fn.Blocks {
		for _, in := range b.Instrs {
			switch x := in.(type) {
			case *ssa.Call:
				idx, _, args := eCallOnField(x)
				switch {
				case idx >= 0 && upper[idx]:
					if keyed(args...) {
						f.uCons = append(f.uCons, x)
					}
				case idx >= 0 && idx == baseIdx:
					f.bCons = append(f.bCons, x)
				}
			case *ssa.Lookup:
				if idx := eSSAFieldOfRecv(x.X); idx >= 0 && upper[idx] {
					if keyed(x.Index) {
						f.uCons = append(f.uCons, x)
					}
				}
			}
		}
	}
	return f
}

func ePrecedence(c *Ctx, fn *ssa.Function, w *eWorld) (string, string) {
	f := ePrecCollect(fn, w)
	pos := func(v ssa.Value) string { return c.Position(v.Pos()) }
	if len(f.uCons) == 0 {
		return Violation, fmt.Sprintf("never consults the upper layer %s for the requested id", w.upperNames())
	}
	if len(f.bCons) == 0 {
		return Violation, fmt.Sprintf("never falls back to the base layer: a feature only in %s is not found", w.base.Name())
	}
	res := fn.Signature.Results()
	if res.Len() == 1 && types.Identical(res.At(0).Type(), types.Typ[types.Bool]) {
		if st, d, ok := ePrecBool(c, f); ok {
			return st, d
		}
	}
	// general form: presence test on an upper consultation
	isU := func(v ssa.Value) bool {
		for _, u := range f.uCons {
			if u == v {
				return true
			}
		}
		return false
	}
	firstFail := ""
	tests := 0
	for _, b := range fn.Blocks {
		if len(b.Instrs) == 0 {
			continue
		}
		ifi, ok := b.Instrs[len(b.Instrs)-1].(*ssa.If)
		if !ok {
			continue
		}
		u, presentIdx, ok := ePresence(ifi.Cond, isU)
		if !ok {
			continue
		}
		tests++
		present, absent := b.Succs[presentIdx], b.Succs[1-presentIdx]
		fromPresent := eReachableBlocks(present)
		fail := ""
		for _, bc := range f.bCons {
			bi := bc.(ssa.Instruction)
			if b == bi.Block() || !b.Dominates(bi.Block()) {
				fail = fmt.Sprintf("the base is consulted at %s without first testing the upper layer's answer (%s)", pos(bc), pos(u))
				break
			}
			if fromPresent[bi.Block()] {
				fail = fmt.Sprintf("the base is consulted at %s although the upper layer %s has the feature (test at %s)", pos(bc), w.upperNames(), c.Position(ifi.Cond.Pos()))
				break
			}
		}
		if fail == "" {
			// every return reachable from the present edge yields the upper layer's answer
			for _, rb := range fn.Blocks {
				if !fromPresent[rb] || len(rb.Instrs) == 0 {
					continue
				}
				ret, ok := rb.Instrs[len(rb.Instrs)-1].(*ssa.Return)
				if !ok || len(ret.Results) == 0 {
					continue
				}
				if !eFromOnPaths(ret.Results[0], u, fromPresent, b, present, 0) {
					fail = fmt.Sprintf("when the upper layer %s has the feature (test at %s) the value returned at %s is not the upper layer's answer", w.upperNames(), c.Position(ifi.Cond.Pos()), c.Position(ret.Pos()))
					break
				}
			}
		}
		if fail == "" {
			// the absent edge returns the base's answer
			fromAbsent := eReachableBlocks(absent)
			okBase := false
			for _, rb := range fn.Blocks {
				if !fromAbsent[rb] || len(rb.Instrs) == 0 {
					continue
				}
				ret, ok := rb.Instrs[len(rb.Instrs)-1].(*ssa.Return)
				if !ok || len(ret.Results) == 0 {
					continue
				}
				if eDependsOn(ret.Results[0], func(x ssa.Value) bool {
					for _, bc := range f.bCons {
						if bc == x {
							return true
						}
					}
					return false
				}) {
					okBase = true
				}
			}
			if !okBase {
				fail = "when the upper layer has no such feature no return yields the base's answer"
			}
		}
		if fail == "" {
			return OK, fmt.Sprintf("upper layer %s consulted at %s; its answer is returned when present, base %s consulted only on absence", w.upperNames(), pos(u), w.base.Name())
		}
		if firstFail == "" {
			firstFail = fail
		}
	}
	if tests == 0 {
		return Violation, fmt.Sprintf("the upper layer %s is consulted at %s but no branch tests whether it has the feature before the base is used at %s", w.upperNames(), pos(f.uCons[0]), pos(f.bCons[0]))
	}
	return Violation, firstFail
}

// ePresence recognises a presence test on an upper consultation and returns the index of the
// successor taken when the feature is present.
func ePresence(cond ssa.Value, isU func(ssa.Value) bool) (ssa.Value, int, bool) {
	strip := func(v ssa.Value) ssa.Value {
		for {
			switch x := v.(type) {
			case *ssa.ChangeInterface:
				v = x.X
			case *ssa.MakeInterface:
				v = x.X
			case *ssa.ChangeType:
				v = x.X
			default:
				return v
			}
		}
	}
	switch x := cond.(type) {
	case *ssa.UnOp:
		if x.Op == token.NOT {
			u, idx, ok := ePresence(x.X, isU)
			return u, 1 - idx, ok
		}
	case *ssa.BinOp:
		if x.Op != token.EQL && x.Op != token.NEQ {
			return nil, 0, false
		}
		var other ssa.Value
		if k, ok := x.Y.(*ssa.Const); ok && k.IsNil() {
			other = x.X
		} else if k, ok := x.X.(*ssa.Const); ok && k.IsNil() {
			other = x.Y
		}
		if other == nil {
			return nil, 0, false
		}
		src := strip(other)
		if ex, ok := src.(*ssa.Extract); ok {
			src = ex.Tuple
		}
		if !isU(src) {
			return nil, 0, false
		}
		isErr := types.Identical(other.Type(), types.Universe.Lookup("error").Type())
		presentWhenTrue := (x.Op == token.NEQ) != isErr // x != nil present; err == nil present
		if presentWhenTrue {
			return src, 0, true
		}
		return src, 1, true
	case *ssa.Extract:
		if isU(x.Tuple) && types.Identical(x.Type(), types.Typ[types.Bool]) {
			return x.Tuple, 0, true
		}
	}
	if isU(cond) && types.Identical(cond.Type(), types.Typ[types.Bool]) {
		return cond, 0, true
	}
	return nil, 0, false
}

// eFromOnPaths: the value, as seen on paths through the present edge (test block t -> present),
// is computed from u. Phi edges that cannot be taken on such paths are ignored.
func eFromOnPaths(v ssa.Value, u ssa.Value, fromPresent map[*ssa.BasicBlock]bool, t, present *ssa.BasicBlock, depth int) bool {
	if phi, ok := v.(*ssa.Phi); ok && depth < 8 {
		any := false
		for i, e := range phi.Edges {
			pred := phi.Block().Preds[i]
			onPath := fromPresent[pred] || (phi.Block() == present && pred == t)
			if !onPath {
				continue
			}
			any = true
			if !eFromOnPaths(e, u, fromPresent, t, present, depth+1) {
				return false
			}
		}
		return any
	}
	return eDependsOn(v, func(x ssa.Value) bool { return x == u })
}

// ePrecBool interprets a bool-valued method for every outcome of its consultations.
func ePrecBool(c *Ctx, f *ePrecFacts) (string, string, bool) {
	var vars []ssa.Value
	isBool := func(v ssa.Value) bool { return types.Identical(v.Type(), types.Typ[types.Bool]) }
	for _, u := range f.uCons {
		if !isBool(u) {
			return "", "", false
		}
		vars = append(vars, u)
	}
	nu := len(vars)
	for _, b := range f.bCons {
		if !isBool(b) {
			return "", "", false
		}
		vars = append(vars, b)
	}
	if len(vars) > 8 {
		return "", "", false
	}
	for mask := 0; mask < 1<<len(vars); mask++ {
		assign := map[ssa.Value]bool{}
		anyU, anyB, allB := false, false, true
		for i, v := range vars {
			val := mask&(1<<i) != 0
			assign[v] = val
			if i < nu {
				anyU = anyU || val
			} else {
				anyB = anyB || val
				allB = allB && val
			}
		}
		res, ok := eEvalBool(f.fn, assign)
		if !ok {
			return "", "", false
		}
		if anyU && !res {
			return Violation, fmt.Sprintf("returns false although the upper layer (consulted at %s) has the feature", c.Position(f.uCons[0].Pos())), true
		}
		if !anyU && anyB == allB && res != anyB {
			return Violation, fmt.Sprintf("when the upper layer has no such feature the result differs from the base's answer (base consulted at %s)", c.Position(f.bCons[0].Pos())), true
		}
	}
	return OK, fmt.Sprintf("result is true whenever the upper layer (consulted at %s) has the feature and equals the base's answer otherwise", c.Position(f.uCons[0].Pos())), true
}

// eEvalBool runs a function whose control flow depends only on the given boolean values.
func eEvalBool(fn *ssa.Function, assign map[ssa.Value]bool) (bool, bool) {
	env := map[ssa.Value]bool{}
	for k, v := range assign {
		env[k] = v
	}
	var eval func(v ssa.Value) (bool, bool)
	eval = func(v ssa.Value) (bool, bool) {
		if r, ok := env[v]; ok {
			return r, true
		}
		switch x := v.(type) {
		case *ssa.Const:
			if x.Value != nil && types.Identical(x.Type().Underlying(), types.Typ[types.Bool]) {
				return x.Value.String() == "true", true
			}
		case *ssa.UnOp:
			if x.Op == token.NOT {
				r, ok := eval(x.X)
				return !r, ok
			}
		case *ssa.BinOp:
			a, ok1 := eval(x.X)
			b, ok2 := eval(x.Y)
			if ok1 && ok2 {
				switch x.Op {
				case token.EQL:
					return a == b, true
				case token.NEQ, token.XOR:
					return a != b, true
				case token.AND:
					return a && b, true
				case token.OR:
					return a || b, true
				}
			}
		}
		return false, false
	}
	var prev *ssa.BasicBlock
	cur := fn.Blocks[0]
	for steps := 0; steps < 256; steps++ {
		for _, in := range cur.Instrs {
			if phi, ok := in.(*ssa.Phi); ok {
				for i, p := range cur.Preds {
					if p == prev {
						if r, ok := eval(phi.Edges[i]); ok {
							env[phi] = r
						}
					}
				}
			}
		}
		if len(cur.Instrs) == 0 {
			return false, false
		}
		switch t := cur.Instrs[len(cur.Instrs)-1].(type) {
		case *ssa.Return:
			if len(t.Results) != 1 {
				return false, false
			}
			return eval(t.Results[0])
		case *ssa.If:
			r, ok := eval(t.Cond)
			if !ok {
				return false, false
			}
			prev = cur
			if r {
				cur = cur.Succs[0]
			} else {
				cur = cur.Succs[1]
			}
		case *ssa.Jump:
			prev = cur
			cur = cur.Succs[0]
		default:
			return false, false
		}
	}
	return false, false
}
