package main

import (
	"fmt"
	"go/ast"
	"go/types"
)

// MISS-REGISTERS (C01): the compact builder's validator parks an area that refers to a path it has
// not seen yet, and re-examines the parked areas when a path arrives *that somebody was waiting
// for* — it knows that from the path's presence in its state map (`if _, ok := v.paths[id]; ok {
// drain the queue }`). The two sites cooperate through the map: the lookup that misses must
// register the awaited key, or the arrival of that path wakes nobody and the parked area is never
// written — silently, in both passes.
//
// Discovery, by shape (whole module): a type T with a map field M has a waker if one of its methods
// tests presence in M with a comma-ok lookup whose value is discarded (`_, ok := recv.M[k]`) and,
// under that test, calls a method of the same receiver or sets a flag that guards such a call.
// Subjects: every comma-ok lookup `x, ok := recv.M[k]` with an else branch in the methods of T.
// Obligation: the miss branch stores into recv.M under the same key (directly in the branch, on
// every path through it is not required: the branch is straight-line in the instances).
func init() {
	register(&Rule{
		Name:  "MISS-REGISTERS",
		IR:    "ast",
		Props: []string{"C01"},
		Floor: 1,
		Doc:   "where a type re-examines parked work when a key that is already present in its state map arrives, every lookup of that map that misses and leads to parking registers the awaited key in the map (otherwise the arrival wakes nobody and the parked item is never processed)",
		Run:   runMissRegisters,
	})
}

func runMissRegisters(c *Ctx) []Obligation {
	var out []Obligation
	for _, p := range c.SortedPkgs() {
		info := p.TypesInfo
		type lookup struct {
			fd   *ast.FuncDecl
			ifs  *ast.IfStmt
			m    *types.Var
			key  ast.Expr
			recv types.Object
		}
		wakers := map[*types.Var]string{} // map field -> position of the waker test
		var subjects []lookup
		for _, fd := range c.FuncDecls(p) {
			recv := gRecvObj(info, fd)
			if recv == nil || fd.Body == nil {
				continue
			}
			ast.Inspect(fd.Body, func(n ast.Node) bool {
				ifs, ok := n.(*ast.IfStmt)
				if !ok || ifs.Init == nil {
					return true
				}
				as, ok := ifs.Init.(*ast.AssignStmt)
				if !ok || len(as.Lhs) != 2 || len(as.Rhs) != 1 {
					return true
				}
				ix, ok := ast.Unparen(as.Rhs[0]).(*ast.IndexExpr)
				if !ok {
					return true
				}
				sel, ok := ast.Unparen(ix.X).(*ast.SelectorExpr)
				if !ok {
					return true
				}
				if id, ok := ast.Unparen(sel.X).(*ast.Ident); !ok || info.Uses[id] != recv {
					return true
				}
				s := info.Selections[sel]
				if s == nil {
					return true
				}
				mf, _ := s.Obj().(*types.Var)
				if mf == nil {
					return true
				}
				if _, isMap := mf.Type().Underlying().(*types.Map); !isMap {
					return true
				}
				okID, _ := as.Lhs[1].(*ast.Ident)
				condID, _ := ast.Unparen(ifs.Cond).(*ast.Ident)
				if okID == nil || condID == nil || info.Uses[condID] != info.Defs[okID] {
					return true
				}
				valID, _ := as.Lhs[0].(*ast.Ident)
				if valID != nil && valID.Name == "_" && ifs.Else == nil {
					// presence test: a waker if its body calls a method of the receiver or sets a flag
					wakes := false
					ast.Inspect(ifs.Body, func(m ast.Node) bool {
						switch x := m.(type) {
						case *ast.CallExpr:
							if sel, ok := ast.Unparen(x.Fun).(*ast.SelectorExpr); ok {
								if id, ok := ast.Unparen(sel.X).(*ast.Ident); ok && info.Uses[id] == recv {
									wakes = true
								}
							}
						case *ast.AssignStmt:
							if len(x.Lhs) == 1 {
								if tv := info.Types[x.Rhs[0]]; tv.Value != nil && tv.Value.ExactString() == "true" {
									wakes = true
								}
							}
						}
						return true
					})
					if wakes {
						wakers[mf] = c.Position(ifs.Pos())
					}
					return true
				}
				if ifs.Else != nil {
					subjects = append(subjects, lookup{fd, ifs, mf, ix.Index, recv})
				}
				return true
			})
		}
		ord := map[string]int{}
		for _, s := range subjects {
			at, ok := wakers[s.m]
			if !ok {
				continue
			}
			name := c.FuncName(p, s.fd)
			ord[name]++
			ob := Obligation{Key: fmt.Sprintf("%s#%d", name, ord[name]), Pos: c.Position(s.ifs.Pos()), Status: OK}
			stores := false
			if blk, ok := s.ifs.Else.(*ast.BlockStmt); ok {
				for _, st := range blk.List {
					as, ok := st.(*ast.AssignStmt)
					if !ok {
						continue
					}
					for _, l := range as.Lhs {
						if ix, ok := ast.Unparen(l).(*ast.IndexExpr); ok && sameExpr(info, ast.Unparen(ix.Index), ast.Unparen(s.key)) {
							if sel, ok := ast.Unparen(ix.X).(*ast.SelectorExpr); ok {
								if sl := info.Selections[sel]; sl != nil && sl.Obj() == s.m {
									stores = true
								}
							}
						}
					}
				}
			}
			if stores {
				ob.Detail = fmt.Sprintf("the miss branch of the lookup of %s registers %s; the arrival of that key is what triggers the re-examination at %s", s.m.Name(), srcText(c.Fset, s.key), at)
			} else {
				ob.Status = Violation
				ob.Detail = fmt.Sprintf("the lookup %s misses without registering %s in %s: parked work is re-examined only when a key that is already present arrives (test at %s), so the arrival of this key wakes nobody and what was parked for it is never processed",
					srcText(c.Fset, s.ifs.Init), srcText(c.Fset, s.key), s.m.Name(), at)
			}
			out = append(out, ob)
		}
	}
	return out
}
