package main

import (
	"fmt"
	"go/ast"
	"go/token"
	"go/types"
	"sort"
	"strings"

	"golang.org/x/tools/go/cfg"
	"golang.org/x/tools/go/packages"
)

// LOCK-TYPESTATE (C40): typestate {none, R, W} of the server lock along every path of every
// function that touches it or depends on it.
//
// The server lock is recognised by type: an expression of type *sync.RWMutex (the lock is handed
// around by pointer: grpc.service.lock, api.Evaluator.Lock, ui.OpenSourceUI.Lock, ui.Options.Lock,
// ui.lockedHandler.lock — all wired to the one RWMutex of cmd/b6). All such expressions are one
// lock class; RWMutex values embedded in other structures are not in the class.
//
// Events, per function unit (declaration or function literal), on go/cfg:
//   - RLock/RUnlock/Lock/Unlock on the class, `defer x.RUnlock()` / `defer x.Unlock()`;
//   - apply: a call of ingest.Change.Apply whose world argument is shared (result of
//     Worlds.FindOrCreateWorld; the value is classified on SSA through locals, captured variables
//     and interface conversions). A world built in the function by a constructor that returns a
//     fresh object (ingest.NewMutableOverlayWorld) is private and carries no obligation; the world
//     parameter inside an implementation of Change.Apply belongs to the caller's apply;
//   - call: a static call of a module function (or a call of a local function literal) that has an
//     entry requirement.
//
// Entry requirement of a unit (derived, not named): the state the unit needs on entry, inferred
// from the first thing it does on each path in the entry state: RUnlock → R (this is how
// api.(*Evaluator).EvaluateExpression is found: it RUnlocks and relocks the lock it is given),
// Unlock → W, RLock/Lock → none, apply on a shared world → W, call of a unit that requires X → X.
// Conflicting demands are a violation. The requirement is assumed inside the unit and checked at
// every static call site, to a fixpoint, so it travels up through wrappers (EvaluateString,
// EvaluateProto). A unit with a requirement R or W and no static caller in the module is an entry
// point (http.Handler, gRPC method, UI interface method): it is entered with no lock held, unless
// it is an evaluation callback — a function stored in an api.FunctionSymbols table, which the VM
// calls by reflection inside api.Evaluate — which is entered in the state in which the lock-aware
// units call api.Evaluate (R today).
//
// Obligations (keys pkg.Func#apply<N>, #call<N>, #balance):
//   - #apply<N>: the N-th apply on a shared world of the declaration happens in W;
//   - #call<N>:  the N-th call of a unit with a requirement happens in the required state (R for
//     everything that reaches EvaluateExpression); a call of a unit that acquires the lock happens
//     in none (recursive read locking and R→W upgrade deadlock);
//   - #wiring:   a function that hands the lock to several consumers hands the same expression to
//     all of them (supports the one-lock-class assumption; different locks → undecided);
//   - #balance:  every lock operation is legal in its state (RUnlock in R, Unlock in W, RLock and
//     Lock in none) and every return leaves the function in the state the deferred unlock expects
//     (R for a deferred RUnlock, W for a deferred Unlock) or, without one, in its entry state.
//
// Accepted idioms: `x.RLock(); defer x.RUnlock()`; the swap `x.RUnlock(); x.Lock(); …; x.Unlock();
// x.RLock()`; a function literal bound once to a local variable and called directly (its events are
// evaluated in the states of its call sites); `go func(){…}()` (entered in none). Not known
// (undecided): TryLock/TryRLock/RLocker, deferred or escaping literals that contain events,
// deferred acquisition, apply on a world of unknown origin (field, map element, plain parameter).
func init() {
	register(&Rule{
		Name:  "LOCK-TYPESTATE",
		IR:    "cfg",
		Props: []string{"C40", "C23", "C26"},
		// A lock operation that is illegal in its state (RUnlock of an unlocked RWMutex) is a fatal
		// runtime error that ends the server: the #balance obligations also serve C23. In the two
		// functions that apply a client's change (both contain an #apply obligation) the imbalance is
		// on the path that reports the outcome of the change, so the caller is never told: C26.
		FloorBy: map[string]int{"C23": 6, "C26": 2},
		// grpc service.Evaluate (apply, balance); api EvaluateExpression (apply, balance), EvaluateString (call),
		// EvaluateProto (call); ui EvaluateHandler.ServeHTTP (2 calls), OpenSourceUI.ServeStack (call, balance),
		// OpenSourceUI.ServeStartup (balance), CompareHandler.ServeHTTP (call, balance), lockedHandler.ServeHTTP
		// (balance); api/functions addWorldWithChange (apply); wiring: cmd/b6.main, ui.RegisterWebInterface, ui.RegisterTiles
		Floor: 18,
		Doc: "typestate {none,R,W} over the server *sync.RWMutex per function: Change.Apply on a shared world (from Worlds.FindOrCreateWorld) only in W; " +
			"every lock operation legal in its state and every return in the state the deferred unlock (or the caller) expects; " +
			"every call of a function with an entry requirement (derived: EvaluateExpression RUnlocks first, so it and its wrappers require R) made in that state; " +
			"entry points are entered in none, evaluation callbacks (api.FunctionSymbols) in the state api.Evaluate is called in",
		Run: func(c *Ctx) []Obligation {
			out := runLockTypestate(c)
			appliers := map[string]bool{} // functions that apply a change to a shared world themselves
			for _, o := range out {
				if i := strings.Index(o.Key, "#apply"); i >= 0 {
					appliers[o.Key[:i]] = true
				}
			}
			for i := range out {
				k := out[i].Key
				switch {
				case strings.HasSuffix(k, "#balance") && appliers[strings.TrimSuffix(k, "#balance")]:
					out[i].Props = []string{"C40", "C23", "C26"}
				case strings.HasSuffix(k, "#balance"):
					out[i].Props = []string{"C40", "C23"}
				default:
					out[i].Props = []string{"C40"}
				}
			}
			return out
		},
	})
}

// lock states
const (
	iLE uint8 = iota // the (symbolic) entry state
	iLN              // none
	iLR              // read-locked
	iLW              // write-locked
)

func iLName(s uint8) string {
	switch s {
	case iLE:
		return "entry"
	case iLN:
		return "none"
	case iLR:
		return "R"
	case iLW:
		return "W"
	}
	return "?"
}

// requirement lattice
const (
	iReqAny      = 0
	iReqConflict = 100
)

type iLState struct{ lock, deferred uint8 }

type iLSet map[iLState]bool

func (s iLSet) names() string {
	m := map[string]bool{}
	for st := range s {
		m[iLName(st.lock)] = true
	}
	return strings.Join(sortedKeys(m), "|")
}

const (
	iEvLock = iota
	iEvDefer
	iEvApply
	iEvCall
	iEvReturn
	iEvEval    // call of api.Evaluate: records the state evaluation callbacks run in
	iEvUnknown // lock idiom not known
	iEvGoNamed // go f(): f starts in none
)

type iLEvent struct {
	kind   int
	op     string // RLock, RUnlock, Lock, Unlock
	pos    token.Pos
	text   string
	world  iWorldClass
	callee *iLUnit     // iEvCall to a literal
	fn     *types.Func // iEvCall to a declared function
	ord    int         // ordinal of #apply / #call within the declaration
	// pass 2 results
	states iLSet
	bad    []string
}

type iLUnit struct {
	funcUnit
	obj      *types.Func
	parent   *iLUnit // enclosing declaration unit (nil for declarations)
	g        *cfg.CFG
	events   map[ast.Node][]*iLEvent // by CFG node
	all      []*iLEvent              // in source order
	exitEv   map[*cfg.Block]*iLEvent // implicit return at the end of the body
	req      int                     // iReqAny, iLN, iLR, iLW, iReqConflict
	acquires bool
	reqWhy   string
	use      string // literals: "var", "call", "go", "defer", "other"
	callers  int    // static call sites (declarations) / direct calls (literals)
	callback bool
	entry    iLSet
}

type iLT struct {
	c         *Ctx
	t         *iTypes
	k         *iClassifier
	units     []*iLUnit
	byObj     map[*types.Func]*iLUnit
	byLit     map[*ast.FuncLit]*iLUnit
	evalFunc  *types.Func
	callbacks iLSet
	litVars   map[types.Object]*iLitBinding
}

func iIsRWMutexPtr(t types.Type) bool {
	p, ok := t.(*types.Pointer)
	if !ok {
		return false
	}
	return isNamed(p.Elem(), "sync", "RWMutex") && p.Elem() == types.Type(namedOf(p.Elem()))
}

func runLockTypestate(c *Ctx) []Obligation {
	t, err := iLoadTypes(c)
	if err != nil {
		return iAnchorFailure(err)
	}
	lt := &iLT{c: c, t: t, k: iNewClassifier(c, t), byObj: map[*types.Func]*iLUnit{}, byLit: map[*ast.FuncLit]*iLUnit{}, litVars: map[types.Object]*iLitBinding{}}
	if api := c.Pkg("api"); api != nil {
		// the VM entry: package-level api.Evaluate(expression, *Context)
		if f, ok := api.Types.Scope().Lookup("Evaluate").(*types.Func); ok {
			lt.evalFunc = f
		}
	}
	if lt.evalFunc == nil {
		return iAnchorFailure(fmt.Errorf("api.Evaluate not found"))
	}
	for _, p := range c.SortedPkgs() {
		lt.collect(p)
	}
	lt.markCallbacks()
	lt.infer()
	return lt.check()
}

// collect builds the units of a package and their events.
func (lt *iLT) collect(p *packages.Package) {
	info := p.TypesInfo
	var decl *iLUnit
	for _, fu := range lt.c.units(p, true) {
		u := &iLUnit{funcUnit: fu, events: map[ast.Node][]*iLEvent{}, exitEv: map[*cfg.Block]*iLEvent{}}
		if fu.lit == nil {
			u.obj, _ = info.Defs[fu.decl.Name].(*types.Func)
			if u.obj != nil {
				lt.byObj[u.obj] = u
			}
			decl = u
		} else {
			u.parent = decl
			u.use = "other"
			lt.byLit[fu.lit] = u
		}
		lt.units = append(lt.units, u)
	}
	// how each literal is used, and the local variables bound to literals
	for _, u := range lt.units {
		if u.pkg != p || u.lit != nil {
			continue
		}
		lt.bindLiterals(u)
	}
	for _, u := range lt.units {
		if u.pkg == p {
			lt.events(u)
		}
	}
}

type iLitBinding struct {
	lit   *iLUnit
	count int // assignments to the variable
}

// bindLiterals records `v := func…` bindings and the syntactic role of each literal.
func (lt *iLT) bindLiterals(u *iLUnit) {
	info := u.pkg.TypesInfo
	bind := func(lhs ast.Expr, rhs ast.Expr) {
		id, ok := ast.Unparen(lhs).(*ast.Ident)
		if !ok {
			return
		}
		o := info.ObjectOf(id)
		if o == nil {
			return
		}
		b := lt.litVars[o]
		if b == nil {
			b = &iLitBinding{}
			lt.litVars[o] = b
		}
		b.count++
		if fl, ok := ast.Unparen(rhs).(*ast.FuncLit); ok {
			b.lit = lt.byLit[fl]
			if b.lit != nil {
				b.lit.use = "var"
			}
		}
	}
	ast.Inspect(u.body, func(n ast.Node) bool {
		switch s := n.(type) {
		case *ast.AssignStmt:
			if len(s.Lhs) == len(s.Rhs) {
				for i := range s.Lhs {
					bind(s.Lhs[i], s.Rhs[i])
				}
			} else {
				for i := range s.Lhs {
					bind(s.Lhs[i], nil)
				}
			}
		case *ast.ValueSpec:
			for i, id := range s.Names {
				if i < len(s.Values) {
					bind(id, s.Values[i])
				}
			}
		case *ast.GoStmt:
			if fl, ok := ast.Unparen(s.Call.Fun).(*ast.FuncLit); ok && lt.byLit[fl] != nil {
				lt.byLit[fl].use = "go"
			}
		case *ast.DeferStmt:
			if fl, ok := ast.Unparen(s.Call.Fun).(*ast.FuncLit); ok && lt.byLit[fl] != nil {
				lt.byLit[fl].use = "defer"
			}
		case *ast.CallExpr:
			if fl, ok := ast.Unparen(s.Fun).(*ast.FuncLit); ok && lt.byLit[fl] != nil && lt.byLit[fl].use == "other" {
				lt.byLit[fl].use = "call"
			}
		}
		return true
	})
	// a variable bound to a literal that is also used as a value (not called) escapes
	calledIdents := map[*ast.Ident]bool{}
	defIdents := map[*ast.Ident]bool{}
	ast.Inspect(u.body, func(n ast.Node) bool {
		switch s := n.(type) {
		case *ast.CallExpr:
			if id, ok := ast.Unparen(s.Fun).(*ast.Ident); ok {
				calledIdents[id] = true
			}
		case *ast.AssignStmt:
			for _, l := range s.Lhs {
				if id, ok := ast.Unparen(l).(*ast.Ident); ok {
					defIdents[id] = true
				}
			}
		case *ast.ValueSpec:
			for _, id := range s.Names {
				defIdents[id] = true
			}
		}
		return true
	})
	ast.Inspect(u.body, func(n ast.Node) bool {
		if id, ok := n.(*ast.Ident); ok && !calledIdents[id] && !defIdents[id] {
			if b := lt.litVars[info.ObjectOf(id)]; b != nil && b.lit != nil {
				b.lit.use = "other"
			}
		}
		return true
	})
}

func (lt *iLT) lockOp(info *types.Info, call *ast.CallExpr) (string, bool) {
	sel, ok := ast.Unparen(call.Fun).(*ast.SelectorExpr)
	if !ok {
		return "", false
	}
	f := calleeFunc(info, call)
	if f == nil || f.Pkg() == nil || f.Pkg().Path() != "sync" {
		return "", false
	}
	rt := iRecvType(f)
	if rt == nil || !isNamed(rt, "sync", "RWMutex") {
		return "", false
	}
	if !iIsRWMutexPtr(info.TypeOf(sel.X)) {
		return "", false // an RWMutex value embedded elsewhere: not the server lock class
	}
	return f.Name(), true
}

// events computes the events of a unit, attached to its CFG nodes.
func (lt *iLT) events(u *iLUnit) {
	info := u.pkg.TypesInfo
	var calls map[token.Pos]iCallInstr
	ssaCalls := func() map[token.Pos]iCallInstr {
		if calls == nil {
			calls = map[token.Pos]iCallInstr{}
			top := u
			if u.parent != nil {
				top = u.parent
			}
			if top.obj != nil {
				if fn := lt.c.SSAFunc(top.obj); fn != nil {
					calls = iCallIndex(fn)
				}
			}
		}
		return calls
	}
	add := func(n ast.Node, ev *iLEvent) {
		u.events[n] = append(u.events[n], ev)
		u.all = append(u.all, ev)
	}
	classifyCall := func(n ast.Node, call *ast.CallExpr, deferred, spawned bool) {
		text := nodeText(lt.c.Fset, call)
		if op, ok := lt.lockOp(info, call); ok {
			switch {
			case spawned:
				add(n, &iLEvent{kind: iEvUnknown, pos: call.Pos(), text: "go " + text})
			case deferred && (op == "RUnlock" || op == "Unlock"):
				add(n, &iLEvent{kind: iEvDefer, op: op, pos: call.Pos(), text: "defer " + text})
			case deferred:
				add(n, &iLEvent{kind: iEvUnknown, pos: call.Pos(), text: "defer " + text})
			case op == "RLock" || op == "RUnlock" || op == "Lock" || op == "Unlock":
				add(n, &iLEvent{kind: iEvLock, op: op, pos: call.Pos(), text: text})
			default:
				add(n, &iLEvent{kind: iEvUnknown, pos: call.Pos(), text: text})
			}
			return
		}
		if fl, ok := ast.Unparen(call.Fun).(*ast.FuncLit); ok {
			if cu := lt.byLit[fl]; cu != nil && !deferred && !spawned {
				add(n, &iLEvent{kind: iEvCall, callee: cu, pos: call.Pos(), text: text})
			}
			return
		}
		if id, ok := ast.Unparen(call.Fun).(*ast.Ident); ok {
			if b := lt.litVars[info.ObjectOf(id)]; b != nil && b.lit != nil {
				if b.count == 1 && !deferred && !spawned {
					add(n, &iLEvent{kind: iEvCall, callee: b.lit, pos: call.Pos(), text: text})
				} else {
					b.lit.use = "other"
				}
				return
			}
		}
		f := calleeFunc(info, call)
		if f == nil {
			return
		}
		f = f.Origin()
		if lt.t.iIsApply(f) && len(call.Args) == 1 {
			cl := iWorldClass{kind: iWUnknown, why: "call not found in SSA"}
			if ci, ok := ssaCalls()[call.Lparen]; ok {
				cc := ci.instr.Common()
				if cc.IsInvoke() && len(cc.Args) == 1 {
					cl = lt.k.classify(cc.Args[0])
				} else if !cc.IsInvoke() && len(cc.Args) == 2 {
					cl = lt.k.classify(cc.Args[1])
				}
			}
			top := u
			if u.parent != nil {
				top = u.parent
			}
			switch cl.kind {
			case iWPrivate:
				return
			case iWParam, iWSelf:
				// inside an implementation of Change.Apply (or of a MutableWorld) the world belongs to the caller's apply
				if top.obj != nil && (lt.t.iIsApplyImpl(top.obj) || iImplements(iRecvType(top.obj), lt.t.mworld)) {
					return
				}
			}
			ev := &iLEvent{kind: iEvApply, pos: call.Pos(), text: text, world: cl}
			if deferred || spawned {
				ev.kind = iEvUnknown
			}
			add(n, ev)
			return
		}
		if f == lt.evalFunc {
			add(n, &iLEvent{kind: iEvEval, pos: call.Pos(), text: text})
		}
		// calls through an interface have no declaration here: dynamic dispatch is not followed (see limits)
		if fd, _ := lt.c.Decl(f); fd != nil && fd.Body != nil {
			kind := iEvCall
			if spawned {
				kind = iEvGoNamed
			}
			if deferred {
				return
			}
			add(n, &iLEvent{kind: kind, fn: f, pos: call.Pos(), text: text})
		}
	}
	u.g = newCFG(info, u.body)
	for _, b := range u.g.Blocks {
		if !b.Live {
			continue
		}
		for _, n := range b.Nodes {
			switch s := n.(type) {
			case *ast.DeferStmt:
				for _, a := range s.Call.Args {
					for _, call := range iShallowCalls(a) {
						classifyCall(n, call, false, false)
					}
				}
				classifyCall(n, s.Call, true, false)
			case *ast.GoStmt:
				for _, a := range s.Call.Args {
					for _, call := range iShallowCalls(a) {
						classifyCall(n, call, false, false)
					}
				}
				classifyCall(n, s.Call, false, true)
			default:
				for _, call := range iShallowCalls(n) {
					classifyCall(n, call, false, false)
				}
				if rs, ok := n.(*ast.ReturnStmt); ok {
					add(n, &iLEvent{kind: iEvReturn, pos: rs.Pos(), text: nodeText(lt.c.Fset, rs)})
				}
			}
		}
		if isExitBlock(info, b) {
			hasRet := false
			if len(b.Nodes) > 0 {
				_, hasRet = b.Nodes[len(b.Nodes)-1].(*ast.ReturnStmt)
			}
			if !hasRet {
				ev := &iLEvent{kind: iEvReturn, pos: u.body.Rbrace, text: "end of function"}
				u.exitEv[b] = ev
				u.all = append(u.all, ev)
			}
		}
	}
	sort.SliceStable(u.all, func(i, j int) bool { return u.all[i].pos < u.all[j].pos })
}

// markCallbacks finds the functions stored in api.FunctionSymbols tables.
func (lt *iLT) markCallbacks() {
	for _, p := range lt.c.SortedPkgs() {
		info := p.TypesInfo
		for _, f := range p.Syntax {
			if lt.c.IsGenerated(f) {
				continue
			}
			ast.Inspect(f, func(n ast.Node) bool {
				mark := func(e ast.Expr) {
					var id *ast.Ident
					switch x := ast.Unparen(e).(type) {
					case *ast.Ident:
						id = x
					case *ast.SelectorExpr:
						id = x.Sel
					}
					if id == nil {
						return
					}
					if fn, ok := info.ObjectOf(id).(*types.Func); ok {
						if u := lt.byObj[fn.Origin()]; u != nil {
							u.callback = true
						}
					}
				}
				switch x := n.(type) {
				case *ast.CompositeLit:
					if tv := info.TypeOf(x); tv != nil && isNamed(tv, ModulePath+"/api", "FunctionSymbols") {
						for _, el := range x.Elts {
							if kv, ok := el.(*ast.KeyValueExpr); ok {
								mark(kv.Value)
							}
						}
					}
				case *ast.AssignStmt:
					for i, l := range x.Lhs {
						if ix, ok := ast.Unparen(l).(*ast.IndexExpr); ok && i < len(x.Rhs) {
							if tv := info.TypeOf(ix.X); tv != nil && isNamed(tv, ModulePath+"/api", "FunctionSymbols") {
								mark(x.Rhs[i])
							}
						}
					}
				}
				return true
			})
		}
	}
}

func (lt *iLT) calleeUnit(ev *iLEvent) *iLUnit {
	if ev.callee != nil {
		return ev.callee
	}
	if ev.fn != nil {
		return lt.byObj[ev.fn]
	}
	return nil
}

// demand of an event given the lock state; 0 = nothing demanded.
func (lt *iLT) demand(ev *iLEvent) (need uint8, acquire bool) {
	switch ev.kind {
	case iEvLock:
		switch ev.op {
		case "RLock", "Lock":
			return iLN, true
		case "RUnlock":
			return iLR, false
		case "Unlock":
			return iLW, false
		}
	case iEvApply:
		return iLW, false
	case iEvCall:
		if cu := lt.calleeUnit(ev); cu != nil {
			switch cu.req {
			case int(iLR):
				return iLR, false
			case int(iLW):
				return iLW, false
			case int(iLN):
				if cu.acquires {
					return iLN, true
				}
			}
		}
	}
	return 0, false
}

// flow runs the typestate over the unit's CFG from the given entry set. visit is called for
// every (event, incoming state).
func (lt *iLT) flow(u *iLUnit, entry iLSet, visit func(ev *iLEvent, st iLState)) {
	in := map[*cfg.Block]iLSet{}
	if len(u.g.Blocks) == 0 {
		return
	}
	start := u.g.Blocks[0]
	in[start] = iLSet{}
	for s := range entry {
		in[start][s] = true
	}
	work := []*cfg.Block{start}
	queued := map[*cfg.Block]bool{start: true}
	step := func(ev *iLEvent, st iLState) iLState {
		switch ev.kind {
		case iEvLock:
			switch ev.op {
			case "RLock":
				st.lock = iLR
			case "Lock":
				st.lock = iLW
			case "RUnlock", "Unlock":
				st.lock = iLN
			}
		case iEvDefer:
			if ev.op == "RUnlock" {
				st.deferred = iLR
			} else {
				st.deferred = iLW
			}
		}
		return st
	}
	// first pass to fixpoint (no visiting), then one visiting pass over the stable solution
	for len(work) > 0 {
		b := work[0]
		work = work[1:]
		queued[b] = false
		cur := iLSet{}
		for s := range in[b] {
			cur[s] = true
		}
		for _, n := range b.Nodes {
			for _, ev := range u.events[n] {
				next := iLSet{}
				for s := range cur {
					next[step(ev, s)] = true
				}
				cur = next
			}
		}
		for _, s := range b.Succs {
			if in[s] == nil {
				in[s] = iLSet{}
			}
			grew := false
			for st := range cur {
				if !in[s][st] {
					in[s][st] = true
					grew = true
				}
			}
			if grew && !queued[s] {
				queued[s] = true
				work = append(work, s)
			}
		}
	}
	for _, b := range u.g.Blocks {
		if in[b] == nil {
			continue
		}
		cur := in[b]
		for _, n := range b.Nodes {
			for _, ev := range u.events[n] {
				next := iLSet{}
				for _, s := range iSortedStates(cur) {
					visit(ev, s)
					next[step(ev, s)] = true
				}
				cur = next
			}
		}
		if ev := u.exitEv[b]; ev != nil {
			for _, s := range iSortedStates(cur) {
				visit(ev, s)
			}
		}
	}
}

func iSortedStates(s iLSet) []iLState {
	var out []iLState
	for st := range s {
		out = append(out, st)
	}
	sort.Slice(out, func(i, j int) bool {
		if out[i].lock != out[j].lock {
			return out[i].lock < out[j].lock
		}
		return out[i].deferred < out[j].deferred
	})
	return out
}

// infer computes the entry requirement of every unit to a fixpoint.
func (lt *iLT) infer() {
	relevant := func(u *iLUnit) bool {
		for _, ev := range u.all {
			if ev.kind != iEvReturn {
				return true
			}
		}
		return false
	}
	for changed := true; changed; {
		changed = false
		for _, u := range lt.units {
			if !relevant(u) || u.req == iReqConflict {
				continue
			}
			req, acq, why := u.req, u.acquires, u.reqWhy
			constrain := func(x uint8, a bool, ev *iLEvent) {
				switch {
				case req == iReqAny:
					req, acq = int(x), a
					why = fmt.Sprintf("%s at %s needs %s", ev.text, lt.c.Position(ev.pos), iLName(x))
				case req != int(x) && req != iReqConflict:
					why = fmt.Sprintf("%s, but %s at %s needs %s", why, ev.text, lt.c.Position(ev.pos), iLName(x))
					req = iReqConflict
				case a:
					acq = true
				}
			}
			lt.flow(u, iLSet{iLState{iLE, 0}: true}, func(ev *iLEvent, st iLState) {
				if st.lock != iLE {
					return
				}
				if ev.kind == iEvReturn {
					return // returning in the entry state is balanced
				}
				if need, a := lt.demand(ev); need != 0 {
					constrain(need, a, ev)
				}
			})
			if req != u.req || acq != u.acquires {
				u.req, u.acquires, u.reqWhy = req, acq, why
				changed = true
			}
		}
	}
	// call-site counts
	for _, u := range lt.units {
		for _, ev := range u.all {
			if ev.kind == iEvCall {
				if cu := lt.calleeUnit(ev); cu != nil {
					cu.callers++
				}
			}
		}
	}
}

// check runs the concrete typestate and produces the obligations.
func (lt *iLT) check() []Obligation {
	c := lt.c
	hasReq := func(u *iLUnit) bool { return u.req != iReqAny }
	// group units by declaration
	type group struct {
		decl *iLUnit
		lits []*iLUnit
	}
	var groups []*group
	byDecl := map[*iLUnit]*group{}
	for _, u := range lt.units {
		if u.parent == nil {
			g := &group{decl: u}
			groups = append(groups, g)
			byDecl[u] = g
		} else if g := byDecl[u.parent]; g != nil {
			g.lits = append(g.lits, u)
		}
	}
	rootNote := map[*iLUnit]string{}
	entryOf := func(u *iLUnit, cb bool) iLSet {
		switch {
		case u.req == int(iLR) || u.req == int(iLW):
			if u.callers > 0 {
				return iLSet{iLState{uint8(u.req), 0}: true}
			}
			if u.callback && cb {
				s := iLSet{}
				for st := range lt.callbacks {
					s[iLState{st.lock, 0}] = true
				}
				rootNote[u] = "the function is an evaluation callback (stored in an api.FunctionSymbols table), entered in the state in which api.Evaluate is called: " + lt.callbacks.names()
				return s
			}
			rootNote[u] = "the function has no static caller in the module (entry point reached through an interface or by reflection), so it is entered with no lock held"
			return iLSet{iLState{iLN, 0}: true}
		}
		return iLSet{iLState{iLN, 0}: true}
	}
	run := func(g *group, cb bool) {
		units := append([]*iLUnit{g.decl}, g.lits...)
		for _, u := range units {
			u.entry = nil
			for _, ev := range u.all {
				ev.states, ev.bad = iLSet{}, nil
			}
		}
		g.decl.entry = entryOf(g.decl, cb)
		for _, u := range g.lits {
			if u.use == "go" {
				u.entry = iLSet{iLState{iLN, 0}: true}
			}
		}
		// literals are entered in the states of their call sites: iterate until stable
		for iter := 0; iter < 4; iter++ {
			grew := false
			for _, u := range units {
				if u.entry == nil {
					continue
				}
				lt.flow(u, u.entry, func(ev *iLEvent, st iLState) {
					if ev.kind == iEvCall && ev.callee != nil {
						cu := ev.callee
						if cu.entry == nil {
							cu.entry = iLSet{}
						}
						k := iLState{st.lock, 0}
						if !cu.entry[k] {
							cu.entry[k] = true
							grew = true
						}
					}
				})
			}
			if !grew {
				break
			}
		}
		for _, u := range units {
			if u.entry == nil {
				continue
			}
			entry := u.entry
			lt.flow(u, entry, func(ev *iLEvent, st iLState) {
				ev.states[iLState{st.lock, 0}] = true
				fail := func(f string, a ...interface{}) {
					msg := fmt.Sprintf(f, a...)
					for _, b := range ev.bad {
						if b == msg {
							return
						}
					}
					ev.bad = append(ev.bad, msg)
				}
				switch ev.kind {
				case iEvReturn:
					lock := st.lock
					switch st.deferred {
					case iLR:
						if lock != iLR {
							fail("%s at %s in state %s, but the deferred RUnlock needs R", ev.text, c.Position(ev.pos), iLName(lock))
							return
						}
						lock = iLN
					case iLW:
						if lock != iLW {
							fail("%s at %s in state %s, but the deferred Unlock needs W", ev.text, c.Position(ev.pos), iLName(lock))
							return
						}
						lock = iLN
					}
					if !entry[iLState{lock, 0}] {
						fail("%s at %s leaves the lock in state %s, but the function was entered in %s", ev.text, c.Position(ev.pos), iLName(lock), entry.names())
					}
				case iEvEval:
					if lt.callbacks == nil {
						lt.callbacks = iLSet{}
					}
					if !cb && hasReq(u) {
						lt.callbacks[iLState{st.lock, 0}] = true
					}
				default:
					if need, _ := lt.demand(ev); need != 0 && st.lock != need {
						fail("%s at %s runs in state %s, needs %s", ev.text, c.Position(ev.pos), iLName(st.lock), iLName(need))
					}
				}
			})
		}
	}

	var out []Obligation
	emit := func(g *group) {
		units := append([]*iLUnit{g.decl}, g.lits...)
		name := g.decl.name
		var evs []*iLEvent
		owner := map[*iLEvent]*iLUnit{}
		for _, u := range units {
			for _, ev := range u.all {
				evs = append(evs, ev)
				owner[ev] = u
			}
		}
		sort.SliceStable(evs, func(i, j int) bool { return evs[i].pos < evs[j].pos })
		nApply, nCall := 0, 0
		var balBad, balOps []string
		balance := false
		balPos := g.decl.decl.Pos()
		note := rootNote[g.decl]
		for _, ev := range evs {
			u := owner[ev]
			reached := u.entry != nil && len(ev.states) > 0
			switch ev.kind {
			case iEvApply:
				nApply++
				ob := Obligation{Key: fmt.Sprintf("%s#apply%d", name, nApply), Pos: c.Position(ev.pos)}
				what := fmt.Sprintf("%s on a %s", ev.text, ev.world)
				switch {
				case ev.world.kind != iWShared:
					ob.Status, ob.Detail = Undecided, what+": the rule cannot tell whether this world is shared between requests"
				case u.lit != nil && u.entry == nil:
					ob.Status, ob.Detail = Undecided, what+" inside a function literal that is not called directly (used as: "+u.use+"): its lock state is not known"
				case len(ev.bad) > 0:
					ob.Status = Violation
					ob.Detail = what + " while the lock is not write-held: " + strings.Join(ev.bad, "; ")
					if u.lit != nil {
						ob.Detail += " (the literal is entered in the states of its call sites: " + u.entry.names() + ")"
					} else if note != "" {
						ob.Detail += "; " + note
					}
					ob.Path = lt.trace(units, ev)
				case !reached:
					ob.Status, ob.Detail = OK, what+" is unreachable"
				default:
					ob.Status, ob.Detail = OK, what+" runs in state "+ev.states.names()
					if u.parent == nil && u.callers > 0 && (u.req == int(iLW)) {
						ob.Detail += fmt.Sprintf(" (entry requirement W, checked at %d call sites)", u.callers)
					}
				}
				out = append(out, ob)
			case iEvCall, iEvGoNamed:
				cu := lt.calleeUnit(ev)
				if cu == nil || cu.parent != nil || cu.lit != nil {
					continue // calls of literals are transparent: their events are judged in the call-site states
				}
				need, acq := lt.demand(ev)
				if need == 0 {
					continue
				}
				nCall++
				ob := Obligation{Key: fmt.Sprintf("%s#call%d", name, nCall), Pos: c.Position(ev.pos)}
				what := fmt.Sprintf("call %s of %s, which requires %s on entry (%s)", ev.text, cu.name, iLName(need), cu.reqWhy)
				if acq {
					what = fmt.Sprintf("call %s of %s, which acquires the lock (%s)", ev.text, cu.name, cu.reqWhy)
				}
				switch {
				case u.lit != nil && u.entry == nil:
					ob.Status, ob.Detail = Undecided, what+" inside a function literal that is not called directly (used as: "+u.use+")"
				case ev.kind == iEvGoNamed && need != iLN:
					ob.Status, ob.Detail = Violation, what+" starts a goroutine, which holds no lock"
				case ev.kind == iEvGoNamed:
					ob.Status, ob.Detail = OK, what+" starts a goroutine, which holds no lock"
				case len(ev.bad) > 0:
					ob.Status = Violation
					ob.Detail = what + ": " + strings.Join(ev.bad, "; ")
					if note != "" && u.lit == nil {
						ob.Detail += "; " + note
					}
					ob.Path = lt.trace(units, ev)
				default:
					ob.Status, ob.Detail = OK, what+" runs in state "+ev.states.names()
					if u.parent == nil && u.callers > 0 && (u.req == int(iLR) || u.req == int(iLW)) {
						ob.Detail += fmt.Sprintf(" (own entry requirement %s, checked at %d call sites)", iLName(uint8(u.req)), u.callers)
					}
				}
				out = append(out, ob)
			case iEvLock, iEvDefer:
				if !balance {
					balPos = ev.pos
				}
				balance = true
				balOps = append(balOps, fmt.Sprintf("%s %s [%s]", c.Position(ev.pos), ev.text, ev.states.names()))
				if u.lit != nil && u.entry == nil {
					balBad = append(balBad, fmt.Sprintf("UNDECIDED %s at %s is inside a function literal that is not called directly (used as: %s)", ev.text, c.Position(ev.pos), u.use))
				}
				balBad = append(balBad, ev.bad...)
			case iEvUnknown:
				if !balance {
					balPos = ev.pos
				}
				balance = true
				balBad = append(balBad, fmt.Sprintf("UNDECIDED %s at %s: lock idiom not known", ev.text, c.Position(ev.pos)))
			case iEvReturn:
				balBad = append(balBad, ev.bad...)
			}
		}
		if g.decl.req == iReqConflict {
			balance = true
			balBad = append(balBad, "conflicting demands on the entry state: "+g.decl.reqWhy)
		}
		for _, u := range g.lits {
			if u.req == iReqConflict {
				balance = true
				balBad = append(balBad, "conflicting demands on the entry state of "+u.name+": "+u.reqWhy)
			}
		}
		if balance {
			ob := Obligation{Key: name + "#balance", Pos: c.Position(balPos)}
			switch {
			case len(balBad) == 0:
				ob.Status = OK
				ob.Detail = "every lock operation is legal in its state and every return leaves the lock as the deferred unlock or the caller expects: " + strings.Join(balOps, ", ")
			default:
				ob.Status = Violation
				for _, b := range balBad {
					if strings.HasPrefix(b, "UNDECIDED") {
						ob.Status = Undecided
					}
				}
				ob.Detail = balBad[0]
				if note != "" {
					ob.Detail += "; " + note
				}
				ob.Path = append(append([]string{}, balBad...), balOps...)
			}
			out = append(out, ob)
		}
	}

	interesting := func(g *group) bool {
		if hasReq(g.decl) {
			return true
		}
		for _, u := range g.lits {
			if hasReq(u) {
				return true
			}
		}
		for _, u := range append([]*iLUnit{g.decl}, g.lits...) {
			for _, ev := range u.all {
				if ev.kind == iEvApply || ev.kind == iEvUnknown || ev.kind == iEvDefer || ev.kind == iEvLock {
					return true
				}
			}
		}
		return false
	}
	// phase A: everything that is not an evaluation callback root; records the callback states
	var later []*group
	for _, g := range groups {
		if !interesting(g) {
			continue
		}
		if g.decl.callback && g.decl.callers == 0 && (g.decl.req == int(iLR) || g.decl.req == int(iLW)) {
			later = append(later, g)
			continue
		}
		run(g, false)
		emit(g)
	}
	// phase B: callback roots, entered in the states seen at api.Evaluate
	for _, g := range later {
		if len(lt.callbacks) == 0 {
			out = append(out, Obligation{Key: g.decl.name + "#entry", Pos: c.Position(g.decl.decl.Pos()), Status: Undecided,
				Detail: "evaluation callback with an entry requirement, but no lock-aware call of api.Evaluate was found to tell the state callbacks run in"})
			continue
		}
		run(g, true)
		emit(g)
	}
	out = append(out, lt.wiring()...)
	iSortObligations(out)
	return out
}

// wiring supports the one-lock-class assumption: a function that hands *sync.RWMutex values to
// several consumers (composite-literal fields, call arguments, field assignments) must hand the
// same expression to all of them. Key pkg.Func#wiring; instances are the functions with two or
// more such uses (cmd/b6.main, ui.RegisterWebInterface, ui.RegisterTiles today). Different
// expressions mean two locks may guard the same worlds, which the typestate cannot decide.
func (lt *iLT) wiring() []Obligation {
	var out []Obligation
	for _, p := range lt.c.SortedPkgs() {
		info := p.TypesInfo
		for _, fd := range lt.c.FuncDecls(p) {
			var uses []ast.Expr
			use := func(e ast.Expr) {
				if e == nil {
					return
				}
				if tv := info.TypeOf(e); tv != nil && iIsRWMutexPtr(tv) {
					uses = append(uses, e)
				}
			}
			ast.Inspect(fd.Body, func(n ast.Node) bool {
				switch x := n.(type) {
				case *ast.CompositeLit:
					for _, el := range x.Elts {
						if kv, ok := el.(*ast.KeyValueExpr); ok {
							use(kv.Value)
						} else {
							use(el)
						}
					}
				case *ast.CallExpr:
					for _, a := range x.Args {
						use(a)
					}
				case *ast.AssignStmt:
					if len(x.Lhs) == len(x.Rhs) {
						for i, l := range x.Lhs {
							if _, ok := ast.Unparen(l).(*ast.SelectorExpr); ok {
								use(x.Rhs[i])
							}
						}
					}
				}
				return true
			})
			if len(uses) < 2 {
				continue
			}
			ob := Obligation{Key: lt.c.FuncName(p, fd) + "#wiring", Pos: lt.c.Position(uses[0].Pos()), Status: OK}
			ob.Detail = fmt.Sprintf("all %d consumers of a *sync.RWMutex in this function receive the same lock %s", len(uses), types.ExprString(uses[0]))
			for _, e := range uses[1:] {
				if !sameExpr(info, uses[0], e) {
					ob.Status = Undecided
					ob.Detail = fmt.Sprintf("different locks are handed out: %s at %s and %s at %s; the rule treats every *sync.RWMutex as the one server lock and cannot decide a tree with two",
						types.ExprString(uses[0]), lt.c.Position(uses[0].Pos()), types.ExprString(e), lt.c.Position(e.Pos()))
					break
				}
			}
			out = append(out, ob)
		}
	}
	return out
}

// trace lists the lock events of the declaration, with the states they were seen in, to make a
// report diagnosable.
func (lt *iLT) trace(units []*iLUnit, at *iLEvent) []string {
	var evs []*iLEvent
	for _, u := range units {
		for _, ev := range u.all {
			if ev.kind == iEvLock || ev.kind == iEvDefer || ev == at {
				evs = append(evs, ev)
			}
		}
	}
	sort.SliceStable(evs, func(i, j int) bool { return evs[i].pos < evs[j].pos })
	var out []string
	if len(units) > 0 && units[0].entry != nil {
		out = append(out, "entered in state "+units[0].entry.names())
	}
	for _, ev := range evs {
		mark := ""
		if ev == at {
			mark = "  <== here"
		}
		out = append(out, fmt.Sprintf("%s %s [%s]%s", lt.c.Position(ev.pos), ev.text, ev.states.names(), mark))
	}
	return out
}
