package main

import (
	"fmt"
	"go/ast"
	"go/token"
	"go/types"
	"strings"
)

// ERR-OVERWRITE (C37): a validation that walks a collection and remembers the failure in a
// variable (`err = validate(x)`) instead of returning it at once has to stop looking, or at least
// stop assigning, once the variable is set: the next element's verdict is assigned to the same
// variable, and a good last element turns a failed validation into a success. An area whose last
// ring is fine and whose first ring is missing is then valid.
//
// Subjects, by shape (whole module): assignments `E = <call>` to an error variable E that is
// declared outside the innermost enclosing loop. Obligation: the innermost loop cannot assign E
// again after this assignment has set it — the assignment is followed in the loop body (in its own
// block or an enclosing one within the loop) by `if E != nil { return/break/goto … }`, or the loop's
// own condition tests `E == nil`, or the assignment is the init of such an if statement.
// ingest/validate.go and ingest/compact/build.go carry C37; elsewhere the verdict is informational.
func init() {
	register(&Rule{
		Name:  "ERR-OVERWRITE",
		IR:    "ast",
		Props: []string{"C37"},
		Floor: 0,
		Doc:   "an error remembered in a variable inside a loop is not overwritten by the next iteration's verdict: the loop stops (or tests the variable) before it can assign it again",
		Run:   runErrOverwrite,
	})
}

func runErrOverwrite(c *Ctx) []Obligation {
	var out []Obligation
	for _, p := range c.SortedPkgs() {
		info := p.TypesInfo
		for _, fd := range c.FuncDecls(p) {
			if fd.Body == nil {
				continue
			}
			pos := c.Position(fd.Pos())
			anchored := strings.HasPrefix(pos, "ingest/validate.go:") || strings.HasPrefix(pos, "ingest/compact/build.go:")
			name := c.FuncName(p, fd)
			ord := 0
			testsNil := func(cond ast.Expr, v types.Object, op token.Token) bool {
				found := false
				if cond == nil {
					return false
				}
				ast.Inspect(cond, func(n ast.Node) bool {
					be, ok := n.(*ast.BinaryExpr)
					if !ok || be.Op != op {
						return true
					}
					x, ok1 := ast.Unparen(be.X).(*ast.Ident)
					y, ok2 := ast.Unparen(be.Y).(*ast.Ident)
					if ok1 && ok2 && ((info.Uses[x] == v && y.Name == "nil") || (info.Uses[y] == v && x.Name == "nil")) {
						found = true
					}
					return true
				})
				return found
			}
			leaves := func(body *ast.BlockStmt) bool {
				for _, st := range body.List {
					switch st.(type) {
					case *ast.ReturnStmt, *ast.BranchStmt:
						return true
					}
				}
				return false
			}
			ast.Inspect(fd.Body, func(n ast.Node) bool {
				as, ok := n.(*ast.AssignStmt)
				if !ok || as.Tok != token.ASSIGN || len(as.Lhs) == 0 {
					return true
				}
				id, ok := as.Lhs[len(as.Lhs)-1].(*ast.Ident)
				if !ok {
					return true
				}
				v, _ := info.Uses[id].(*types.Var)
				if v == nil || !jIsError(v.Type()) {
					return true
				}
				if _, isCall := ast.Unparen(as.Rhs[len(as.Rhs)-1]).(*ast.CallExpr); !isCall {
					return true
				}
				anc := enclosing(fd.Body, as)
				if len(anc) > 0 {
					anc = anc[:len(anc)-1] // without the assignment itself
				}
				// innermost loop
				li := -1
				for i := len(anc) - 1; i >= 0; i-- {
					switch anc[i].(type) {
					case *ast.ForStmt, *ast.RangeStmt:
						li = i
					case *ast.FuncLit:
						i = -1
					}
					if li >= 0 {
						break
					}
				}
				if li < 0 {
					return true
				}
				loop := anc[li]
				if v.Pos() >= loop.Pos() && v.Pos() < loop.End() {
					return true // declared inside the loop: fresh per iteration
				}
				ord++
				ob := Obligation{Key: fmt.Sprintf("%s#%d", name, ord), Pos: c.Position(as.Pos()), Status: Violation,
					Detail: fmt.Sprintf("%s is assigned inside a loop that neither stops nor tests %s afterwards: the verdict of a later element overwrites a failure recorded for an earlier one, and a good last element makes the whole validation succeed", srcText(c.Fset, as), id.Name)}
				okWhy := ""
				if fs, ok := loop.(*ast.ForStmt); ok && testsNil(fs.Cond, v, token.EQL) {
					okWhy = "the loop's condition tests " + id.Name + " == nil"
				}
				// the assignment is the init of `if E = f(); E != nil {…}`
				if len(anc) > 0 {
					if ifs, ok := anc[len(anc)-1].(*ast.IfStmt); ok && ifs.Init == ast.Stmt(as) && testsNil(ifs.Cond, v, token.NEQ) {
						okWhy = "the assignment is tested at once"
					}
				}
				// a following `if E != nil { leave }` in a block between the assignment and the loop
				for i := len(anc) - 1; i > li && okWhy == ""; i-- {
					blk, ok := anc[i].(*ast.BlockStmt)
					if !ok {
						continue
					}
					for _, st := range blk.List {
						if st.Pos() <= as.Pos() {
							continue
						}
						if ifs, ok := st.(*ast.IfStmt); ok && testsNil(ifs.Cond, v, token.NEQ) && leaves(ifs.Body) {
							okWhy = "followed by a test of " + id.Name + " that leaves the loop"
						}
					}
				}
				if okWhy != "" {
					ob.Status = OK
					ob.Detail = fmt.Sprintf("%s: %s", srcText(c.Fset, as), okWhy)
				}
				if !anchored {
					if ob.Status == Violation {
						ob.Detail = "verdict violation (outside the anchored files): " + ob.Detail
					}
					ob.Status = Info
				}
				out = append(out, ob)
				return true
			})
		}
	}
	return out
}
