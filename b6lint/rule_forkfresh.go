package main

import (
	"fmt"
	"go/ast"
	"go/token"
	"go/types"
	"sort"
)

// FORK-FRESH (C25): map-parallel runs its workers on forked VMs (api.(*VM).Fork). Fork copies
// the VM struct by value, so every slice/map field that the VM mutates in place while it
// executes (element stores, append to the field) must be given fresh storage in each fork;
// otherwise two workers push their frames into the same backing array and one computes on the
// other's values.
//
// Slots (by type, not by text): the named struct type of package api that has a method
// `Fork(int) []T` returning a slice of itself; W = the slice/map fields of that type that some
// function of the package writes in place (x.F[i] = …, x.F = append(x.F, …), x.F[k] op= …).
// Obligation, one per field of W: inside Fork, the field of the forked element is assigned a
// fresh value: make(…) (any later copy into it is fine), a composite literal, nil, or
// append(<nil or literal of the slice type>, …). Not fresh: the source's field itself, any
// re-slice of it, and append(<re-slice of any existing slice>, …) — in particular the
// "clone idiom gone wrong" append(s[:0], s...), which copies a slice onto itself.
// A field of W with no assignment in Fork at all is a violation (it is shared).
//
// SELF-APPEND (C25, C38; info elsewhere): anywhere in the module, append(X[:0], X...) (or
// [0:0]) whose result is stored somewhere other than X is an alias, not a copy.
func init() {
	register(&Rule{
		Name:  "FORK-FRESH",
		IR:    "ast",
		Props: []string{"C25"},
		Floor: 1, // api.VM.Stack
		Doc: "api.(*VM).Fork gives every slice/map field that the VM mutates in place (element stores, append) fresh storage in each fork " +
			"(make, composite literal, nil, or append to a nil/literal slice); a re-slice of the source, or append(s[:0], s...), shares the backing array between map-parallel workers",
		Run: runForkFresh,
	})
	register(&Rule{
		Name:  "SELF-APPEND",
		IR:    "ast",
		Props: []string{"C25", "C38"},
		Floor: 0,
		Doc: "append(X[:0], X...) copies a slice onto itself: stored anywhere other than back into X it is an alias of X, not a clone " +
			"(instances: every append whose first argument is a zero-length re-slice; api and ingest carry C25/C38, other packages are informational)",
		Run: runSelfAppend,
	})
}

func runForkFresh(c *Ctx) []Obligation {
	var out []Obligation
	p := c.Pkg("api")
	if p == nil {
		return out
	}
	info := p.TypesInfo
	// the forkable type and its Fork method
	var forkDecl *ast.FuncDecl
	var vmType *types.Named
	for _, fd := range c.FuncDecls(p) {
		if fd.Name.Name != "Fork" || fd.Recv == nil {
			continue
		}
		obj, _ := info.Defs[fd.Name].(*types.Func)
		if obj == nil {
			continue
		}
		sig := obj.Type().(*types.Signature)
		if sig.Results().Len() != 1 {
			continue
		}
		sl, ok := sig.Results().At(0).Type().Underlying().(*types.Slice)
		if !ok {
			continue
		}
		recv := namedOf(sig.Recv().Type())
		if recv != nil && types.Identical(sl.Elem(), recv) {
			forkDecl, vmType = fd, recv
		}
	}
	if forkDecl == nil {
		return out
	}
	st, ok := vmType.Underlying().(*types.Struct)
	if !ok {
		return out
	}
	fieldOf := func(e ast.Expr) *types.Var {
		sel, ok := ast.Unparen(e).(*ast.SelectorExpr)
		if !ok {
			return nil
		}
		s := info.Selections[sel]
		if s == nil || s.Kind() != types.FieldVal {
			return nil
		}
		if n := namedOf(s.Recv()); n == nil || n.Obj() != vmType.Obj() {
			return nil
		}
		v, _ := s.Obj().(*types.Var)
		return v
	}
	// W: fields written in place somewhere in the package
	written := map[*types.Var]token.Pos{}
	for _, fd := range c.FuncDecls(p) {
		ast.Inspect(fd.Body, func(n ast.Node) bool {
			as, ok := n.(*ast.AssignStmt)
			if !ok {
				return true
			}
			for i, l := range as.Lhs {
				if ix, ok := ast.Unparen(l).(*ast.IndexExpr); ok {
					if f := fieldOf(ix.X); f != nil {
						if _, seen := written[f]; !seen {
							written[f] = as.Pos()
						}
					}
				}
				if f := fieldOf(l); f != nil && i < len(as.Rhs) {
					if call, ok := ast.Unparen(as.Rhs[i]).(*ast.CallExpr); ok && isBuiltin(info, call, "append") && len(call.Args) > 0 {
						if g := fieldOf(call.Args[0]); g == f {
							if _, seen := written[f]; !seen {
								written[f] = as.Pos()
							}
						}
					}
				}
			}
			return true
		})
	}
	var fields []*types.Var
	for i := 0; i < st.NumFields(); i++ {
		f := st.Field(i)
		switch f.Type().Underlying().(type) {
		case *types.Slice, *types.Map:
			if _, ok := written[f]; ok {
				fields = append(fields, f)
			}
		}
	}
	sort.Slice(fields, func(i, j int) bool { return fields[i].Name() < fields[j].Name() })
	name := c.FuncName(p, forkDecl)
	for _, f := range fields {
		ob := Obligation{Key: fmt.Sprintf("%s#%s", name, f.Name()), Pos: c.Position(forkDecl.Pos())}
		var verdicts []string
		bad := ""
		ast.Inspect(forkDecl.Body, func(n ast.Node) bool {
			as, ok := n.(*ast.AssignStmt)
			if !ok {
				return true
			}
			for i, l := range as.Lhs {
				if fieldOf(l) != f || i >= len(as.Rhs) || len(as.Lhs) != len(as.Rhs) {
					continue
				}
				fresh, why := freshSliceExpr(info, as.Rhs[i])
				verdicts = append(verdicts, fmt.Sprintf("%s: %s", c.Position(as.Pos()), why))
				if !fresh && bad == "" {
					bad = fmt.Sprintf("%s = %s at %s: %s", nodeText(c.Fset, l), nodeText(c.Fset, as.Rhs[i]), c.Position(as.Pos()), why)
					ob.Pos = c.Position(as.Pos())
				}
			}
			return true
		})
		switch {
		case bad != "":
			ob.Status, ob.Detail = Violation, fmt.Sprintf("field %s is mutated in place while the VM runs (e.g. at %s) but the fork does not get its own storage: %s", f.Name(), c.Position(written[f]), bad)
		case len(verdicts) == 0:
			ob.Status, ob.Detail = Violation, fmt.Sprintf("field %s is mutated in place while the VM runs (e.g. at %s) and Fork copies the struct by value without re-seating it: all forks share one backing array", f.Name(), c.Position(written[f]))
		default:
			ob.Status, ob.Detail = OK, fmt.Sprintf("field %s (mutated in place at %s) gets fresh storage in every fork", f.Name(), c.Position(written[f]))
			ob.Path = verdicts
		}
		out = append(out, ob)
	}
	return out
}

// freshSliceExpr reports whether the expression yields storage not shared with any existing slice.
func freshSliceExpr(info *types.Info, e ast.Expr) (bool, string) {
	e = ast.Unparen(e)
	switch x := e.(type) {
	case *ast.Ident:
		if x.Name == "nil" {
			return true, "nil"
		}
	case *ast.CompositeLit:
		return true, "composite literal"
	case *ast.CallExpr:
		if isBuiltin(info, x, "make") {
			return true, "make"
		}
		if isBuiltin(info, x, "append") && len(x.Args) > 0 {
			a0 := ast.Unparen(x.Args[0])
			if id, ok := a0.(*ast.Ident); ok && id.Name == "nil" {
				return true, "append to nil"
			}
			if _, ok := a0.(*ast.CompositeLit); ok {
				return true, "append to a literal"
			}
			if call, ok := a0.(*ast.CallExpr); ok {
				// conversion of nil: []T(nil)
				if tv, ok := info.Types[call.Fun]; ok && tv.IsType() && len(call.Args) == 1 {
					if id, ok := ast.Unparen(call.Args[0]).(*ast.Ident); ok && id.Name == "nil" {
						return true, "append to a typed nil"
					}
				}
			}
			return false, "append to an existing slice reuses its backing array when capacity allows (append(s[:0], s...) copies a slice onto itself)"
		}
		if fn := calleeFunc(info, x); fn != nil && fn.Pkg() != nil && fn.Pkg().Path() == "slices" && fn.Name() == "Clone" {
			return true, "slices.Clone"
		}
		return false, "result of a call that is not known to allocate"
	case *ast.SliceExpr:
		return false, "a re-slice shares the backing array"
	}
	return false, "not a fresh allocation"
}

func runSelfAppend(c *Ctx) []Obligation {
	var out []Obligation
	for _, p := range c.SortedPkgs() {
		info := p.TypesInfo
		rel := relPkg(p)
		var props []string
		switch rel {
		case "api", "api/functions":
			props = []string{"C25"}
		case "ingest", "b6":
			props = []string{"C38"}
		}
		for _, fd := range c.FuncDecls(p) {
			name := c.FuncName(p, fd)
			ord := 0
			ast.Inspect(fd.Body, func(n ast.Node) bool {
				as, ok := n.(*ast.AssignStmt)
				var calls []*ast.CallExpr
				var lhs []ast.Expr
				if ok {
					for i, r := range as.Rhs {
						if call, ok := ast.Unparen(r).(*ast.CallExpr); ok && i < len(as.Lhs) && len(as.Lhs) == len(as.Rhs) {
							calls, lhs = append(calls, call), append(lhs, as.Lhs[i])
						}
					}
				} else if kv, ok := n.(*ast.KeyValueExpr); ok {
					if call, ok := ast.Unparen(kv.Value).(*ast.CallExpr); ok {
						calls, lhs = append(calls, call), append(lhs, nil)
					}
				} else if rs, ok := n.(*ast.ReturnStmt); ok {
					for _, r := range rs.Results {
						if call, ok := ast.Unparen(r).(*ast.CallExpr); ok {
							calls, lhs = append(calls, call), append(lhs, nil)
						}
					}
				}
				for i, call := range calls {
					if !isBuiltin(info, call, "append") || len(call.Args) < 1 {
						continue
					}
					se, ok := ast.Unparen(call.Args[0]).(*ast.SliceExpr)
					if !ok || se.High == nil || !isZeroLit(se.High) || (se.Low != nil && !isZeroLit(se.Low)) {
						continue
					}
					ord++
					ob := Obligation{Key: fmt.Sprintf("%s#%d", name, ord), Pos: c.Position(call.Pos()), Props: props, Status: OK,
						Detail: "append into a zero-length re-slice of " + nodeText(c.Fset, se.X) + " (buffer reuse)"}
					if call.Ellipsis.IsValid() && len(call.Args) == 2 && sameExpr(info, se.X, call.Args[1]) {
						if lhs[i] == nil || !sameExpr(info, lhs[i], se.X) {
							ob.Status = Violation
							ob.Detail = fmt.Sprintf("%s copies %s onto itself and stores the result elsewhere: the result aliases %s instead of cloning it",
								nodeText(c.Fset, call), nodeText(c.Fset, se.X), nodeText(c.Fset, se.X))
						} else {
							ob.Detail = "self-append stored back into the same slice (no effect)"
						}
					}
					if props == nil {
						if ob.Status == Violation {
							ob.Detail = "verdict violation (outside the anchored packages): " + ob.Detail
						}
						ob.Status = Info
					}
					out = append(out, ob)
				}
				return true
			})
		}
	}
	return out
}

func isZeroLit(e ast.Expr) bool {
	bl, ok := ast.Unparen(e).(*ast.BasicLit)
	return ok && bl.Kind == token.INT && bl.Value == "0"
}
