package main

import (
	"fmt"
	"go/ast"
	"go/token"
	"go/types"
	"sort"
	"strings"
)

// INDEX-SPACE (C33): the tile encoder interns tag keys and tag values: a string is appended to a
// list of the layer (`Keys`, `Values`) once, and a map remembers the position it got
// (`index = len(list)-1; e.m[s] = index`). A tag is then written as two positions, one in each
// list. The positions of different lists are different index spaces; a map that remembers
// positions of two lists hands out, for a string that occurs as a key and as a value, the position
// it has in the wrong list, and the tag decodes to another key or value.
//
// Subjects, by shape (package renderer): stores `recv.M[k] = i` into a map field of a struct
// where i was set in the same block to the position of the last element of a list
// (`i = T(len(L) - 1)` after `L = append(L, …)`). One obligation per map field: all such stores
// record positions of one and the same list L.
func init() {
	register(&Rule{
		Name:  "INDEX-SPACE",
		IR:    "ast",
		Props: []string{"C33"},
		Floor: 3,
		Doc:   "each interning map of the tile encoder remembers positions in exactly one list of the layer (keys or values): positions of different lists are different index spaces",
		Run:   runIndexSpace,
	})
}

func runIndexSpace(c *Ctx) []Obligation {
	var out []Obligation
	p := c.Pkg("renderer")
	if p == nil {
		return out
	}
	info := p.TypesInfo
	type rec struct {
		lists map[string]string // list text -> position of a store
		pos   string
	}
	byField := map[*types.Var]*rec{}
	for _, fd := range c.FuncDecls(p) {
		if fd.Body == nil {
			continue
		}
		ast.Inspect(fd.Body, func(n ast.Node) bool {
			blk, ok := n.(*ast.BlockStmt)
			if !ok {
				return true
			}
			// position variables set in this block: v -> list text
			posOf := map[types.Object]string{}
			for _, st := range blk.List {
				as, ok := st.(*ast.AssignStmt)
				if !ok || len(as.Lhs) != 1 || len(as.Rhs) != 1 {
					continue
				}
				// v = T(len(L) - 1)
				if id, ok := as.Lhs[0].(*ast.Ident); ok {
					e := ast.Unparen(as.Rhs[0])
					if conv, ok := e.(*ast.CallExpr); ok && len(conv.Args) == 1 && info.Types[conv.Fun].IsType() {
						e = ast.Unparen(conv.Args[0])
					}
					if be, ok := e.(*ast.BinaryExpr); ok && be.Op == token.SUB {
						if call, ok := ast.Unparen(be.X).(*ast.CallExpr); ok && isBuiltin(info, call, "len") {
							if tv := info.Types[be.Y]; tv.Value != nil && tv.Value.ExactString() == "1" {
								o := info.Defs[id]
								if o == nil {
									o = info.Uses[id]
								}
								if o != nil {
									posOf[o] = srcText(c.Fset, call.Args[0])
								}
							}
						}
					}
				}
				// recv.M[k] = v
				if ix, ok := ast.Unparen(as.Lhs[0]).(*ast.IndexExpr); ok {
					sel, ok := ast.Unparen(ix.X).(*ast.SelectorExpr)
					if !ok {
						continue
					}
					s := info.Selections[sel]
					if s == nil {
						continue
					}
					field, _ := s.Obj().(*types.Var)
					if field == nil {
						continue
					}
					if _, isMap := field.Type().Underlying().(*types.Map); !isMap {
						continue
					}
					if vid, ok := ast.Unparen(as.Rhs[0]).(*ast.Ident); ok {
						if l, ok := posOf[info.Uses[vid]]; ok {
							r := byField[field]
							if r == nil {
								r = &rec{lists: map[string]string{}, pos: c.Position(as.Pos())}
								byField[field] = r
							}
							// the list without the receiver variable's name
							r.lists[l[strings.Index(l, ".")+1:]] = c.Position(as.Pos())
						}
					}
				}
			}
			return true
		})
	}
	var fields []*types.Var
	for f := range byField {
		fields = append(fields, f)
	}
	sort.Slice(fields, func(i, j int) bool { return fields[i].Name() < fields[j].Name() })
	for _, f := range fields {
		r := byField[f]
		var ls []string
		for l, at := range r.lists {
			ls = append(ls, l+" (stored at "+at+")")
		}
		sort.Strings(ls)
		ob := Obligation{Key: "renderer." + f.Name(), Pos: r.pos, Status: OK,
			Detail: fmt.Sprintf("the map %s remembers positions in %s only", f.Name(), ls[0])}
		if len(ls) > 1 {
			ob.Status = Violation
			ob.Detail = fmt.Sprintf("the map %s remembers positions in %d different lists: %s. A string that occurs in both is given the position it has in the list it was first added to, which is not its position in the other", f.Name(), len(ls), strings.Join(ls, "; "))
		}
		out = append(out, ob)
	}
	return out
}
