package main

import (
	"encoding/json"
	"flag"
	"fmt"
	"os"
	"path/filepath"
	"sort"
	"strconv"
	"strings"
	"time"
)

// KnownFindings is /verif/known_findings.json. It is only ever read.
type KnownFindings struct {
	Findings []Finding `json:"findings"`
}

type Finding struct {
	Status   string `json:"status"` // "known" suppresses exactly one obligation key; "fixed" suppresses nothing
	Property string `json:"property"`
	Rule     string `json:"rule"`
	Key      string `json:"key"`
	Commit   string `json:"commit,omitempty"`
	What     string `json:"what"`
	Input    string `json:"input,omitempty"`
}

func loadKnown(verif string) (*KnownFindings, error) {
	b, err := os.ReadFile(filepath.Join(verif, "known_findings.json"))
	if err != nil {
		if os.IsNotExist(err) {
			return &KnownFindings{}, nil
		}
		return nil, err
	}
	var k KnownFindings
	if err := json.Unmarshal(b, &k); err != nil {
		return nil, fmt.Errorf("known_findings.json: %v", err)
	}
	return &k, nil
}

func has(ss []string, s string) bool {
	for _, x := range ss {
		if x == s {
			return true
		}
	}
	return false
}

type Evidence struct {
	PropertyID  string                 `json:"property_id"`
	Tier        string                 `json:"tier"`
	Seed        int                    `json:"seed"`
	Level       string                 `json:"level"`
	Coverage    map[string]interface{} `json:"coverage"`
	Assumptions []string               `json:"assumptions"`
	WallS       float64                `json:"wall_s"`
	Violations  int                    `json:"violations"`
}

// propertyVerdict decides one property from a full result.
type verdict struct {
	obs        []Obligation
	violations []string // text lines for the replay file
	known      []string
	ruleInfos  []RuleInfo
}

func decide(res *Results, known *KnownFindings, prop string) *verdict {
	v := &verdict{}
	for _, e := range res.Errors {
		v.violations = append(v.violations, "engine error (undecided obligations are failures): "+e)
	}
	serving := map[string]bool{}
	for _, r := range rules {
		if has(r.Props, prop) {
			serving[r.Name] = true
		}
	}
	counts := map[string]int{}
	for _, o := range res.Obligations {
		if !has(o.Props, prop) {
			continue
		}
		v.obs = append(v.obs, o)
		if o.Status != Info {
			counts[o.Rule]++
		}
	}
	ran := map[string]bool{}
	for _, ri := range res.Rules {
		if !serving[ri.Name] {
			continue
		}
		ran[ri.Name] = true
		v.ruleInfos = append(v.ruleInfos, ri)
		if ri.Panic != "" {
			v.violations = append(v.violations, fmt.Sprintf("rule %s panicked (undecided): %s", ri.Name, firstLine(ri.Panic)))
		}
		floor := ri.Floor
		if f, ok := ri.FloorBy[prop]; ok {
			floor = f
		}
		if counts[ri.Name] < floor {
			v.violations = append(v.violations, fmt.Sprintf("rule %s matched %d instances for %s, fewer than the %d confirmed by hand: the rule has gone vacuous (an anchored construct was renamed or removed)", ri.Name, counts[ri.Name], prop, floor))
		}
	}
	if len(res.Errors) == 0 {
		for name := range serving {
			if !ran[name] {
				v.violations = append(v.violations, "rule "+name+" did not run")
			}
		}
	}
	knownKeys := map[string]Finding{}
	for _, f := range known.Findings {
		if f.Status == "known" && f.Property == prop {
			knownKeys[f.Key] = f
		}
	}
	for _, o := range v.obs {
		if o.Status != Violation && o.Status != Undecided {
			continue
		}
		if f, ok := knownKeys[o.Key]; ok {
			v.known = append(v.known, fmt.Sprintf("KNOWN-FINDING: property=%s %s (%s): %s", prop, o.Key, o.Pos, f.What))
			continue
		}
		line := fmt.Sprintf("%s %s at %s: %s", o.Status, o.Key, o.Pos, o.Detail)
		for _, p := range o.Path {
			line += "\n      " + p
		}
		v.violations = append(v.violations, line)
	}
	return v
}

func firstLine(s string) string {
	if i := strings.IndexByte(s, '\n'); i >= 0 {
		return s[:i]
	}
	return s
}

func cmdCheck(args []string) int {
	fs := flag.NewFlagSet("check", flag.ExitOnError)
	root := fs.String("root", "/repo/src/diagonal.works/b6", "module directory")
	verif := fs.String("verif", "/verif", "verification directory")
	fresh := fs.Bool("fresh", false, "ignore stored results")
	noEvidence := fs.Bool("no-evidence", false, "do not write evidence (used when analysing scratch trees)")
	fs.Parse(args)
	if fs.NArg() < 1 {
		fmt.Fprintln(os.Stderr, "usage: b6lint check [-root dir] <property> [quick|thorough]")
		return 2
	}
	prop := fs.Arg(0)
	tier := "quick"
	if fs.NArg() > 1 {
		tier = fs.Arg(1)
	}
	if t := os.Getenv("VERIF_TIER"); t != "" && fs.NArg() < 2 {
		tier = t
	}
	seed, _ := strconv.Atoi(os.Getenv("VERIF_SEED"))
	start := time.Now()

	claimed := false
	for _, r := range rules {
		if has(r.Props, prop) {
			claimed = true
		}
	}
	if !claimed {
		fmt.Printf("property %s is not decided by any rule (see MANIFEST.not_applicable)\n", prop)
		return 2
	}

	replay := filepath.Join(*verif, "evidence", prop+".replay.txt")
	os.MkdirAll(filepath.Join(*verif, "evidence"), 0o755)
	fail := func(msg string) int {
		os.WriteFile(replay, []byte(msg+"\n"), 0o644)
		fmt.Println(msg)
		fmt.Printf("VIOLATION property=%s replay=%s\n", prop, replay)
		return 1
	}
	known, err := loadKnown(*verif)
	if err != nil {
		return fail("cannot read known findings: " + err.Error())
	}
	res, reused, err := cachedResults(*verif, *root, *fresh)
	if err != nil && res == nil {
		return fail("analysis failed: " + err.Error())
	}
	v := decide(res, known, prop)

	var mut *MutantReport
	if tier == "thorough" {
		mut = runMutants(*verif, *root, prop)
		for _, m := range mut.Failures {
			v.violations = append(v.violations, "checker adequacy: "+m)
		}
	}

	// evidence
	nOb, nOK, nInfo := 0, 0, 0
	var samples []interface{}
	var instances []string
	for _, o := range v.obs {
		if o.Status == Info {
			nInfo++
			continue
		}
		nOb++
		if o.Status == OK {
			nOK++
		}
		instances = append(instances, o.Key+" = "+o.Status)
	}
	// samples: up to 3 per rule, failing ones first
	perRule := map[string]int{}
	sorted := append([]Obligation(nil), v.obs...)
	sort.SliceStable(sorted, func(i, j int) bool {
		return (sorted[i].Status != OK && sorted[i].Status != Info) && (sorted[j].Status == OK || sorted[j].Status == Info)
	})
	for _, o := range sorted {
		if perRule[o.Rule] >= 3 {
			continue
		}
		perRule[o.Rule]++
		samples = append(samples, map[string]interface{}{"rule": o.Rule, "key": o.Key, "pos": o.Pos, "status": o.Status, "detail": o.Detail, "path": o.Path})
	}
	var ruleTexts []string
	var ruleStats []map[string]interface{}
	for _, ri := range v.ruleInfos {
		ruleTexts = append(ruleTexts, ri.Name+" ("+ri.IR+"): "+ri.Doc)
		n := 0
		for _, o := range v.obs {
			if o.Rule == ri.Name && o.Status != Info {
				n++
			}
		}
		floor := ri.Floor
		if f, ok := ri.FloorBy[prop]; ok {
			floor = f
		}
		ruleStats = append(ruleStats, map[string]interface{}{"rule": ri.Name, "ir": ri.IR, "instances_for_property": n, "floor": floor, "rule_wall_s": ri.WallS})
	}
	cov := map[string]interface{}{
		"explanation": "Static analysis of the current working tree of " + *root + " (type-checked AST, go/cfg, go/ssa, VTA call graph; no b6 code is executed). " +
			"Decides structural necessary conditions of the property, for all paths of the analysed functions, not the behavioural statement itself. Rules: " + strings.Join(ruleTexts, " || "),
		"obligations":              nOb,
		"discharged":               nOK,
		"known_findings":           len(v.known),
		"informational":            nInfo,
		"instances":                instances,
		"samples":                  samples,
		"rules":                    ruleStats,
		"packages":                 len(res.Packages),
		"functions_analysed":       res.Functions,
		"skipped_packages":         res.Skipped,
		"tree_key":                 res.TreeKey,
		"files_hashed":             res.Files,
		"analysis_wall_s":          res.WallS,
		"analysis_reused_for_tree": reused,
		"checker_cmd":              "/verif/check " + prop + " " + tier,
		"trusted_base":             []string{"go/types", "golang.org/x/tools v0.29.0 (go/packages, go/cfg, go/ssa, callgraph/vta)", "the rule implementations in /verif/b6lint"},
		"exhaustive":               true,
	}
	if mut != nil {
		cov["mutants"] = mut.Table
		cov["mutants_total"] = mut.Total
		cov["mutants_caught"] = mut.Caught
		cov["mutants_stale"] = mut.Stale
	}
	ev := Evidence{PropertyID: prop, Tier: tier, Seed: seed, Level: "other", Coverage: cov,
		Assumptions: []string{
			"rules decide shape (necessary conditions); runtime values are not bounded",
			"callees are resolved through go/types and VTA; no pointer analysis is available in x/tools v0.29.0",
			"packages needing cgo GDAL are skipped (they hold no anchor)",
		},
		WallS: time.Since(start).Seconds(), Violations: len(v.violations)}
	if !*noEvidence {
		b, _ := json.MarshalIndent(ev, "", " ")
		if err := os.WriteFile(filepath.Join(*verif, "evidence", prop+".json"), b, 0o644); err != nil {
			return fail("cannot write evidence: " + err.Error())
		}
	}

	fmt.Printf("property %s tier %s: %d obligations, %d discharged, %d known findings, %d violations (analysis %.1fs, reused=%v, tree %s)\n",
		prop, tier, nOb, nOK, len(v.known), len(v.violations), res.WallS, reused, short(res.TreeKey))
	for _, k := range v.known {
		fmt.Println(k)
	}
	if len(v.violations) > 0 {
		text := fmt.Sprintf("property %s: %d violation(s) on tree %s (%s)\n", prop, len(v.violations), short(res.TreeKey), *root)
		for _, l := range v.violations {
			text += "  " + l + "\n"
		}
		text += "replay: /verif/check " + prop + " " + tier + "\n"
		os.WriteFile(replay, []byte(text), 0o644)
		fmt.Print(text)
		fmt.Printf("VIOLATION property=%s replay=%s\n", prop, replay)
		return 1
	}
	os.Remove(replay)
	return 0
}

func short(s string) string {
	if len(s) > 12 {
		return s[:12]
	}
	return s
}
