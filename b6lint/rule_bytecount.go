package main

import (
	"fmt"
	"go/ast"
	"go/token"
	"go/types"
	"strings"

	"golang.org/x/tools/go/packages"
)

// BYTECOUNT (C11): unit inference ("bytes consumed" versus "decoded value") in the decoders of
// ingest/compact and encoding.
//
// Slots (one instance per function, keyed by the function): in the two packages
//   - methods and package-level functions named Unmarshal* that take a []byte buffer and whose
//     last result is an int (the number of bytes consumed), and
//   - methods named Length returning int on a type whose underlying type is []byte (a marshalled
//     record measuring itself, today MarshalledReference.Length).
//
// Every integer expression is classified, flow-insensitively per variable (join over all its
// assignments) and per struct field (join over all stores to that field in the module):
//
//	CONST  compile-time constants
//	BYTES  second result of binary.Uvarint/Varint; result of binary.PutUvarint/PutVarint; copy(...);
//	       len(x) for x a []byte or string; the last int result of any Unmarshal*/Marshal* function or
//	       method of the two packages that takes a []byte buffer, and the result of any method named
//	       Length returning int there (the "bytes" contract, each checked at its own declaration where
//	       it is a slot); sums/differences of BYTES and CONST; a decoded length L that also bounds
//	       a sub-slice of a byte buffer, buf[a : a+L] (UnmarshalString); a field all of whose stores
//	       are BYTES (BlockHeader.Length, bufferReader.Pos)
//	VALUE  first result of binary.Uvarint/Varint and anything computed from it (arithmetic,
//	       conversions, calls of other functions with a VALUE argument, results of module functions
//	       whose own returns are VALUE such as DecodeValue #1 and UnmarshalGeometryEncodingAndLength #2)
//	OTHER  everything else (parameters, element counts len(non-bytes), loop indices, unknown calls)
//
// Obligation: in a slot function every returned byte count and every lower bound of a slice
// expression on a byte buffer (buffer[i:]) is BYTES or CONST. VALUE is a violation; OTHER is
// undecided (an idiom the rule does not know).
//
// Not in the slot (trusted as BYTES sources through the naming contract only): the Length()
// methods of the layout containers of package encoding (ByteArrays, ByteArraysBuilder,
// StringTableBuilder, Uint64Map, Uint64MapBuilder) and TokenMapEncoder.Length, which compute a size
// from header fields and reservations, not from varint decoding.
func init() {
	register(&Rule{
		Name:  "BYTECOUNT",
		IR:    "ast",
		Props: []string{"C11"},
		Floor: 47,
		Doc: "in every Unmarshal* function/method of ingest/compact and encoding that returns the number of bytes consumed (and Length() of []byte-backed records), " +
			"the returned count and every lower bound of a slice of the byte buffer are byte quantities (second result of a varint read, results of other such functions, copy, len of bytes, constants, sums of those, " +
			"a decoded length that also bounds a sub-slice of the buffer, byte-length fields), never a decoded value (first result of a varint read or anything computed from it)",
		Run: runByteCount,
	})
}

type bUnit int

const (
	bBottom bUnit = iota
	bConst
	bBytes
	bOther
	bValue
)

func (u bUnit) String() string {
	return [...]string{"UNASSIGNED", "CONST", "BYTES", "OTHER", "VALUE"}[u]
}

func bJoin(a, b bUnit) bUnit {
	if a > b {
		return a
	}
	return b
}

type bStore struct {
	expr ast.Expr
	fn   *bFn
}

type bFn struct {
	pkg      *packages.Package
	info     *types.Info
	decl     *ast.FuncDecl
	env      map[types.Object]bUnit
	promoted map[types.Object]bool
	params   map[types.Object]bool
	done     bool
	busy     bool
}

type bUnits struct {
	c       *Ctx
	fns     map[*ast.FuncDecl]*bFn
	stores  map[*types.Var][]bStore // field -> stores
	fieldCl map[*types.Var]bUnit
	fieldIn map[*types.Var]bool
	sumMemo map[*types.Func][]bUnit
	sumBusy map[*types.Func]bool
	changes int // number of variable classes raised so far (global fixpoint control)
}

// settle repeats the analysis of the given functions until no variable class changes any more:
// memoised field classes and function summaries computed while a function was still being
// analysed (recursion) may be too low, so they are recomputed from the (monotone) variable classes.
func (u *bUnits) settle(fs []*bFn) {
	for round := 0; round < 6; round++ {
		before := u.changes
		u.fieldCl = map[*types.Var]bUnit{}
		u.sumMemo = map[*types.Func][]bUnit{}
		for _, f := range u.fns {
			f.done = false
		}
		for _, f := range fs {
			u.prepare(f)
		}
		if u.changes == before && round > 0 {
			return
		}
	}
}

func newBUnits(c *Ctx) *bUnits {
	u := &bUnits{c: c, fns: map[*ast.FuncDecl]*bFn{}, stores: map[*types.Var][]bStore{}, fieldCl: map[*types.Var]bUnit{},
		fieldIn: map[*types.Var]bool{}, sumMemo: map[*types.Func][]bUnit{}, sumBusy: map[*types.Func]bool{}}
	// index stores to fields of structs declared in the codec packages, module-wide
	for _, p := range c.SortedPkgs() {
		for _, fd := range c.FuncDecls(p) {
			fn := u.fn(p, fd)
			ast.Inspect(fd.Body, func(n ast.Node) bool {
				switch n := n.(type) {
				case *ast.AssignStmt:
					if len(n.Lhs) == len(n.Rhs) {
						for i, l := range n.Lhs {
							if se, ok := ast.Unparen(l).(*ast.SelectorExpr); ok {
								if fv := bFieldOf(p.TypesInfo, se); fv != nil && bInCodecPkg(fv) {
									u.stores[fv] = append(u.stores[fv], bStore{n.Rhs[i], fn})
								}
							}
						}
					} else {
						for _, l := range n.Lhs {
							if se, ok := ast.Unparen(l).(*ast.SelectorExpr); ok {
								if fv := bFieldOf(p.TypesInfo, se); fv != nil && bInCodecPkg(fv) {
									u.stores[fv] = append(u.stores[fv], bStore{nil, fn}) // tuple store: unknown
								}
							}
						}
					}
				case *ast.IncDecStmt:
					// x.F++ : constant step, no effect on the class
				case *ast.CompositeLit:
					st, ok := bStructOf(p.TypesInfo.TypeOf(n))
					if !ok {
						return true
					}
					for i, el := range n.Elts {
						var fv *types.Var
						var val ast.Expr
						if kv, ok := el.(*ast.KeyValueExpr); ok {
							if id, ok := kv.Key.(*ast.Ident); ok {
								fv, _ = p.TypesInfo.ObjectOf(id).(*types.Var)
							}
							val = kv.Value
						} else if i < st.NumFields() {
							fv, val = st.Field(i), el
						}
						if fv != nil && fv.IsField() && bInCodecPkg(fv) {
							u.stores[fv] = append(u.stores[fv], bStore{val, fn})
						}
					}
				}
				return true
			})
		}
	}
	return u
}

func bStructOf(t types.Type) (*types.Struct, bool) {
	if t == nil {
		return nil, false
	}
	if p, ok := t.Underlying().(*types.Pointer); ok {
		t = p.Elem()
	}
	st, ok := t.Underlying().(*types.Struct)
	return st, ok
}

func bFieldOf(info *types.Info, se *ast.SelectorExpr) *types.Var {
	if sel := info.Selections[se]; sel != nil && sel.Kind() == types.FieldVal {
		v, _ := sel.Obj().(*types.Var)
		return v
	}
	return nil
}

func (u *bUnits) fn(p *packages.Package, fd *ast.FuncDecl) *bFn {
	if f, ok := u.fns[fd]; ok {
		return f
	}
	f := &bFn{pkg: p, info: p.TypesInfo, decl: fd, env: map[types.Object]bUnit{}, promoted: map[types.Object]bool{}, params: map[types.Object]bool{}}
	u.fns[fd] = f
	return f
}

// prepare computes the variable classes of a function by fixpoint iteration.
func (u *bUnits) prepare(f *bFn) {
	if f.done || f.busy {
		return
	}
	f.busy = true
	info := f.info
	// parameters (of the declaration and of nested literals) and named results
	markParams := func(ft *ast.FuncType) {
		if ft.Params != nil {
			for _, fl := range ft.Params.List {
				for _, n := range fl.Names {
					if o := info.Defs[n]; o != nil {
						f.params[o] = true
					}
				}
			}
		}
	}
	markParams(f.decl.Type)
	if f.decl.Recv != nil {
		for _, fl := range f.decl.Recv.List {
			for _, n := range fl.Names {
				if o := info.Defs[n]; o != nil {
					f.params[o] = true
				}
			}
		}
	}
	ast.Inspect(f.decl.Body, func(n ast.Node) bool {
		if fl, ok := n.(*ast.FuncLit); ok {
			markParams(fl.Type)
		}
		return true
	})
	// promoted: decoded byte lengths, buf[a : a+L]
	ast.Inspect(f.decl.Body, func(n ast.Node) bool {
		se, ok := n.(*ast.SliceExpr)
		if !ok || se.High == nil || !bIsBytesOrString(info.TypeOf(se.X)) {
			return true
		}
		var l ast.Expr
		if se.Low == nil {
			l = se.High
		} else if be, ok := ast.Unparen(se.High).(*ast.BinaryExpr); ok && be.Op == token.ADD {
			if sameExpr(info, be.X, se.Low) {
				l = be.Y
			} else if sameExpr(info, be.Y, se.Low) {
				l = be.X
			}
		}
		if l != nil {
			if id, ok := bStripConv(info, l).(*ast.Ident); ok {
				if o := info.ObjectOf(id); o != nil && !f.params[o] {
					f.promoted[o] = true
				}
			}
		}
		return true
	})
	for iter := 0; iter < 12; iter++ {
		changed := false
		set := func(id *ast.Ident, cl bUnit) {
			o := info.ObjectOf(id)
			if o == nil || id.Name == "_" {
				return
			}
			if n := bJoin(f.env[o], cl); n != f.env[o] {
				f.env[o] = n
				changed = true
				u.changes++
			}
		}
		ast.Inspect(f.decl.Body, func(n ast.Node) bool {
			switch n := n.(type) {
			case *ast.AssignStmt:
				switch {
				case n.Tok == token.DEFINE || n.Tok == token.ASSIGN:
					if len(n.Lhs) == len(n.Rhs) {
						for i, l := range n.Lhs {
							if id, ok := l.(*ast.Ident); ok {
								set(id, u.class(f, n.Rhs[i]))
							}
						}
					} else if len(n.Rhs) == 1 {
						call, _ := ast.Unparen(n.Rhs[0]).(*ast.CallExpr)
						for i, l := range n.Lhs {
							if id, ok := l.(*ast.Ident); ok {
								if call != nil {
									set(id, u.result(f, call, i))
								} else {
									set(id, bOther)
								}
							}
						}
					}
				case n.Tok == token.ADD_ASSIGN || n.Tok == token.SUB_ASSIGN:
					if id, ok := n.Lhs[0].(*ast.Ident); ok {
						set(id, u.class(f, n.Rhs[0]))
					}
				default:
					if id, ok := n.Lhs[0].(*ast.Ident); ok {
						cl := u.class(f, n.Rhs[0])
						if cl != bValue {
							cl = bOther
						}
						set(id, cl)
					}
				}
			case *ast.IncDecStmt:
				if id, ok := n.X.(*ast.Ident); ok {
					set(id, bConst)
				}
			case *ast.ValueSpec:
				for i, id := range n.Names {
					switch {
					case len(n.Values) == len(n.Names):
						set(id, u.class(f, n.Values[i]))
					case len(n.Values) == 0:
						set(id, bConst) // zero value
					case len(n.Values) == 1:
						if call, ok := ast.Unparen(n.Values[0]).(*ast.CallExpr); ok {
							set(id, u.result(f, call, i))
						} else {
							set(id, bOther)
						}
					}
				}
			case *ast.RangeStmt:
				for _, e := range []ast.Expr{n.Key, n.Value} {
					if id, ok := e.(*ast.Ident); ok {
						set(id, bOther)
					}
				}
			}
			return true
		})
		if !changed {
			break
		}
	}
	f.busy = false
	f.done = true
}

func bNumeric(t types.Type) bool {
	b, ok := t.Underlying().(*types.Basic)
	return ok && b.Info()&types.IsNumeric != 0
}

func bIsBytesOrString(t types.Type) bool {
	if t == nil {
		return false
	}
	if bIsByteSlice(t) {
		return true
	}
	b, ok := t.Underlying().(*types.Basic)
	return ok && b.Info()&types.IsString != 0
}

// class classifies an expression evaluated inside f.
func (u *bUnits) class(f *bFn, e ast.Expr) bUnit {
	info := f.info
	e = ast.Unparen(e)
	if tv, ok := info.Types[e]; ok && tv.Value != nil {
		return bConst
	}
	switch e := e.(type) {
	case *ast.Ident:
		o := info.ObjectOf(e)
		if o == nil {
			return bOther
		}
		if f.promoted[o] {
			return bBytes
		}
		if f.params[o] {
			return bOther
		}
		if v, ok := o.(*types.Var); ok && o.Pkg() != nil && o.Parent() != o.Pkg().Scope() && !v.IsField() {
			return f.env[o] // bBottom while unassigned (optimistic inside the fixpoint)
		}
		return bOther
	case *ast.BinaryExpr:
		l, r := u.class(f, e.X), u.class(f, e.Y)
		switch e.Op {
		case token.ADD, token.SUB:
			return bJoin(l, r)
		}
		if l == bValue || r == bValue {
			return bValue
		}
		if l <= bConst && r <= bConst {
			return bConst
		}
		return bOther
	case *ast.UnaryExpr:
		if e.Op == token.SUB || e.Op == token.ADD {
			return u.class(f, e.X)
		}
		if u.class(f, e.X) == bValue {
			return bValue
		}
		return bOther
	case *ast.CallExpr:
		return u.result(f, e, 0)
	case *ast.SelectorExpr:
		if fv := bFieldOf(info, e); fv != nil {
			return u.field(fv)
		}
		return bOther
	case *ast.StarExpr:
		if u.class(f, e.X) == bValue {
			return bValue
		}
		return bOther
	}
	return bOther
}

// field: join over all stores to the field in the module.
func (u *bUnits) field(fv *types.Var) bUnit {
	if cl, ok := u.fieldCl[fv]; ok {
		return cl
	}
	if u.fieldIn[fv] {
		return bBottom
	}
	u.fieldIn[fv] = true
	cl := bBottom
	for _, s := range u.stores[fv] {
		if s.expr == nil {
			cl = bJoin(cl, bOther)
			continue
		}
		u.prepare(s.fn)
		cl = bJoin(cl, u.class(s.fn, s.expr))
	}
	if len(u.stores[fv]) == 0 {
		cl = bOther
	}
	delete(u.fieldIn, fv)
	u.fieldCl[fv] = cl
	return cl
}

// bytesContract: the k-th result of fn is a byte count by the naming contract.
func bBytesContract(fn *types.Func, k int) bool {
	if !bInCodecPkg(fn) {
		return false
	}
	sig := fn.Type().(*types.Signature)
	res := sig.Results()
	if res.Len() == 0 || k != res.Len()-1 || !bIsInt(res.At(k).Type()) {
		return false
	}
	if fn.Name() == "Length" && sig.Recv() != nil && res.Len() == 1 {
		return true
	}
	return (bProperPrefix(fn.Name(), "Unmarshal") || bProperPrefix(fn.Name(), "Marshal")) && bHasBufferParam(sig)
}

// result classifies the k-th result of a call.
func (u *bUnits) result(f *bFn, call *ast.CallExpr, k int) bUnit {
	info := f.info
	if tv, ok := info.Types[call.Fun]; ok && tv.IsType() {
		if len(call.Args) == 1 {
			return u.class(f, call.Args[0])
		}
		return bOther
	}
	anyValue := func() bool {
		for _, a := range call.Args {
			if t := info.TypeOf(a); t != nil {
				if b, ok := t.Underlying().(*types.Basic); ok && b.Info()&types.IsNumeric != 0 && u.class(f, a) == bValue {
					return true
				}
			}
		}
		return false
	}
	if id, ok := ast.Unparen(call.Fun).(*ast.Ident); ok {
		if b, ok := info.Uses[id].(*types.Builtin); ok {
			switch b.Name() {
			case "copy":
				return bBytes
			case "len":
				if len(call.Args) == 1 && bIsBytesOrString(info.TypeOf(call.Args[0])) {
					return bBytes
				}
				return bOther
			case "min", "max":
				cl := bBottom
				for _, a := range call.Args {
					cl = bJoin(cl, u.class(f, a))
				}
				return cl
			}
			return bOther
		}
	}
	fn := calleeFunc(info, call)
	if fn == nil {
		if anyValue() {
			return bValue
		}
		return bOther
	}
	if fn.Pkg() != nil && fn.Pkg().Path() == "encoding/binary" {
		switch fn.Name() {
		case "Uvarint", "Varint":
			if k == 0 {
				return bValue
			}
			return bBytes
		case "PutUvarint", "PutVarint":
			return bBytes
		}
	}
	if bBytesContract(fn, k) {
		return bBytes
	}
	if fn.Pkg() != nil && strings.HasPrefix(fn.Pkg().Path(), ModulePath) {
		if sum := u.summary(fn); k < len(sum) {
			switch sum[k] {
			case bConst, bBytes, bValue:
				return sum[k]
			}
		}
	}
	if anyValue() {
		return bValue
	}
	return bOther
}

// summary: classes of the results of a module function, from its return statements
// (parameters are OTHER).
func (u *bUnits) summary(fn *types.Func) []bUnit {
	fn = fn.Origin()
	if s, ok := u.sumMemo[fn]; ok {
		return s
	}
	if u.sumBusy[fn] {
		return nil
	}
	fd, p := u.c.Decl(fn)
	if fd == nil || fd.Body == nil || p == nil {
		u.sumMemo[fn] = nil
		return nil
	}
	u.sumBusy[fn] = true
	f := u.fn(p, fd)
	u.prepare(f)
	n := fn.Type().(*types.Signature).Results().Len()
	sum := make([]bUnit, n)
	for _, r := range u.returns(f) {
		for k := 0; k < n; k++ {
			sum[k] = bJoin(sum[k], r.class[k])
		}
	}
	delete(u.sumBusy, fn)
	u.sumMemo[fn] = sum
	return sum
}

type bReturn struct {
	stmt  *ast.ReturnStmt
	class []bUnit
	text  []string
}

// returns classifies each result of each return statement of the declaration itself.
func (u *bUnits) returns(f *bFn) []bReturn {
	var out []bReturn
	var named []types.Object
	if f.decl.Type.Results != nil {
		for _, fl := range f.decl.Type.Results.List {
			for _, n := range fl.Names {
				named = append(named, f.info.Defs[n])
			}
		}
	}
	nres := 0
	if f.decl.Type.Results != nil {
		nres = f.decl.Type.Results.NumFields()
	}
	inspectShallow(f.decl.Body, func(n ast.Node) bool {
		rs, ok := n.(*ast.ReturnStmt)
		if !ok {
			return true
		}
		r := bReturn{stmt: rs, class: make([]bUnit, nres), text: make([]string, nres)}
		switch {
		case len(rs.Results) == nres:
			for k, e := range rs.Results {
				r.class[k], r.text[k] = u.class(f, e), types.ExprString(e)
			}
		case len(rs.Results) == 0 && len(named) == nres:
			for k, o := range named {
				r.class[k], r.text[k] = f.env[o], o.Name()
			}
		case len(rs.Results) == 1:
			call, _ := ast.Unparen(rs.Results[0]).(*ast.CallExpr)
			for k := 0; k < nres; k++ {
				r.text[k] = types.ExprString(rs.Results[0])
				if call != nil {
					r.class[k] = u.result(f, call, k)
				} else {
					r.class[k] = bOther
				}
			}
		}
		out = append(out, r)
		return true
	})
	return out
}

// bByteCountSlot reports whether the declaration is a slot of BYTECOUNT.
func bByteCountSlot(info *types.Info, fd *ast.FuncDecl) bool {
	obj, _ := info.Defs[fd.Name].(*types.Func)
	if obj == nil {
		return false
	}
	sig := obj.Type().(*types.Signature)
	res := sig.Results()
	if res.Len() == 0 || !bIsInt(res.At(res.Len()-1).Type()) {
		return false
	}
	if bProperPrefix(obj.Name(), "Unmarshal") && bHasBufferParam(sig) {
		return true
	}
	if obj.Name() == "Length" && res.Len() == 1 && sig.Recv() != nil && bIsByteSlice(sig.Recv().Type()) {
		return true
	}
	return false
}

func runByteCount(c *Ctx) []Obligation {
	var out []Obligation
	u := newBUnits(c)
	var slots []*bFn
	for _, p := range bCodecPkgs(c) {
		for _, fd := range c.FuncDecls(p) {
			if bByteCountSlot(p.TypesInfo, fd) {
				slots = append(slots, u.fn(p, fd))
			}
		}
	}
	u.settle(slots)
	for _, p := range bCodecPkgs(c) {
		info := p.TypesInfo
		for _, fd := range c.FuncDecls(p) {
			if !bByteCountSlot(info, fd) {
				continue
			}
			f := u.fn(p, fd)
			ob := Obligation{Key: c.FuncName(p, fd), Pos: c.Position(fd.Pos())}
			var bad, unknown []string
			checks := 0
			note := func(cl bUnit, what string, pos token.Pos, why string) {
				checks++
				switch cl {
				case bConst, bBytes:
				case bValue:
					bad = append(bad, fmt.Sprintf("%s at %s is a decoded value, not a byte count%s", what, c.Position(pos), why))
				default:
					unknown = append(unknown, fmt.Sprintf("%s at %s is of unknown unit (%s)%s", what, c.Position(pos), cl, why))
				}
			}
			last := fd.Type.Results.NumFields() - 1
			for _, r := range u.returns(f) {
				note(r.class[last], "returned byte count `"+r.text[last]+"`", r.stmt.Pos(), u.explain(f, r, last))
			}
			ast.Inspect(fd.Body, func(n ast.Node) bool {
				se, ok := n.(*ast.SliceExpr)
				if !ok || se.Low == nil || !bIsByteSlice(info.TypeOf(se.X)) {
					return true
				}
				note(u.class(f, se.Low), "lower bound of `"+types.ExprString(se)+"`", se.Pos(), u.explainExpr(f, se.Low))
				return true
			})
			switch {
			case len(bad) > 0:
				ob.Status = Violation
				ob.Detail = strings.Join(bad, "; ")
			case len(unknown) > 0:
				ob.Status = Undecided
				ob.Detail = strings.Join(unknown, "; ")
			default:
				ob.Status = OK
				ob.Detail = fmt.Sprintf("%d returned counts / buffer lower bounds are byte quantities", checks)
			}
			out = append(out, ob)
		}
	}
	return out
}

func (u *bUnits) explain(f *bFn, r bReturn, k int) string {
	if k < len(r.stmt.Results) && len(r.stmt.Results) == len(r.class) {
		return u.explainExpr(f, r.stmt.Results[k])
	}
	return ""
}

// explainExpr names the VALUE / unknown variables an expression depends on.
func (u *bUnits) explainExpr(f *bFn, e ast.Expr) string {
	var names, values []string
	seen := map[types.Object]bool{}
	ast.Inspect(e, func(n ast.Node) bool {
		id, ok := n.(*ast.Ident)
		if !ok {
			return true
		}
		o := f.info.ObjectOf(id)
		if _, isVar := o.(*types.Var); !isVar || seen[o] || !bNumeric(o.Type()) {
			return true
		}
		seen[o] = true
		switch cl := u.class(f, id); cl {
		case bValue:
			values = append(values, fmt.Sprintf("%s is a decoded %s", id.Name, cl))
		case bOther, bBottom:
			names = append(names, fmt.Sprintf("%s is %s", id.Name, cl))
		}
		return true
	})
	if len(values) > 0 {
		names = values
	}
	if len(names) == 0 {
		return ""
	}
	return " (" + strings.Join(names, ", ") + ")"
}
