package main

import (
	"fmt"
	"go/ast"
	"go/token"
	"go/types"
	"strings"
)

// FLAG-RESET (C05): the exact geometric tests walk nested loops (polygon → loops → edges) and keep a
// per-loop verdict in a boolean ("the cap's centre is on the left of every edge of this loop"). The
// flag belongs to one iteration of the outer loop: if it is declared outside the outer loop and only
// ever cleared inside the inner loop, the first loop that clears it decides for all the loops after
// it (a polygon with several holes is judged by its first hole).
//
// Slots (by shape, root package, package geometry and package ingest): a boolean local that is assigned a constant,
// or accumulated (v = v && e, v = v || e), inside an inner loop and read in the body of the enclosing outer loop after that inner loop.
// Obligation: the flag is declared, or assigned its starting constant, inside the outer loop body
// before the inner loop — on every iteration it starts afresh.
//
// CATCH-UP (C08, C06): an iterator keeps a derived index next to its read position (the section
// index `ns` next to the byte offset `i`) and brings the index up to date with `for cond(ns, i) {
// ns++ }`. When a sibling method repositions the offset by plain assignment (Advance: `i.i = ii`)
// and relies on this method to resynchronise, one step is not enough: the catch-up must be a loop.
//
// Slots (by shape, packages ingest/compact and search): in methods of iterator types, a for or if
// statement whose body is exactly `F++` for a receiver field F and whose condition reads F and
// another receiver field G, where some method of the type assigns G with `=` from something other
// than G itself. Obligation: the statement is a loop.
//
// START-FEATURE (C33): EncodeTile attaches the ID and the tags to "the feature the geometry helper
// has just started". Every geometry helper therefore has to start a feature on every path, also for
// degenerate geometry: a helper that returns early without it makes EncodeTile write the ID and tags
// of this feature onto the previous one.
//
// Slots (by shape, package renderer): functions with an *Encoder parameter that call its StartFeature
// method. Obligation: every path from the entry to a return passes that call.
func init() {
	register(&Rule{
		Name:    "FLAG-RESET",
		IR:      "ast",
		Props:   []string{"C05", "C39", "C15"},
		Floor:   1,
		FloorBy: map[string]int{"C05": 0, "C39": 1, "C15": 1},
		// The geometric predicates of spatial.go carry C05 (none keeps such a flag since fix 0ae73b2
		// replaced the per-ring verdict of CapIntersectsPolygon by Polygon.ContainsPoint); the tag list's
		// RemoveTags carries C39; package geometry is informational.
		Narrow: func(o *Obligation) {
			switch {
			case strings.HasPrefix(o.Pos, "spatial.go:"):
				o.Props = []string{"C05"}
			case strings.HasPrefix(o.Pos, "world.go:"):
				o.Props = []string{"C39"}
			case strings.HasPrefix(o.Pos, "ingest/features.go:"):
				// the per-reference verdict of FeatureReferencesByID.AddFeature
				o.Props = []string{"C15"}
			default:
				o.Props = []string{"C05"}
				if o.Status == Violation {
					o.Detail = "verdict violation (outside the anchored files): " + o.Detail
				}
				o.Status = Info
			}
		},
		Doc: "a boolean verdict that an inner loop clears and the enclosing loop reads afterwards is declared or re-initialised inside the enclosing loop, before the inner loop: each outer iteration (each ring of a polygon) is judged on its own",
		Run: runFlagReset,
	})
	register(&Rule{
		Name:  "CATCH-UP",
		IR:    "ast",
		Props: []string{"C08", "C06"},
		Floor: 1,
		Doc:   "where an iterator brings a derived index up to date with its read position by stepping it (`F++` under a condition on F and the position G) and a sibling method can move G by plain assignment, the stepping is a loop, not a single step",
		Run:   runCatchUp,
	})
	register(&Rule{
		Name:  "START-FEATURE",
		IR:    "cfg",
		Props: []string{"C33"},
		Floor: 3,
		Doc:   "every tile geometry helper (a function taking the *Encoder that calls StartFeature) starts a feature on every path before it returns, so that the ID and tags EncodeTile writes next belong to this feature",
		Run:   runStartFeature,
	})
}

func runFlagReset(c *Ctx) []Obligation {
	var out []Obligation
	for _, rel := range []string{"", "geometry", "ingest"} {
		p := c.Pkg(rel)
		if p == nil {
			continue
		}
		info := p.TypesInfo
		for _, fd := range c.FuncDecls(p) {
			name := c.FuncName(p, fd)
			ord := 0
			// outer loops
			var visitOuter func(n ast.Node)
			visitOuter = func(n ast.Node) {
				ast.Inspect(n, func(m ast.Node) bool {
					if m == nil || m == n {
						return true
					}
					var body *ast.BlockStmt
					switch x := m.(type) {
					case *ast.FuncLit:
						return false
					case *ast.ForStmt:
						body = x.Body
					case *ast.RangeStmt:
						body = x.Body
					}
					if body == nil {
						return true
					}
					// inner loops directly in this body's statements (any depth below, but not nested funcs)
					for si, st := range body.List {
						var inner *ast.BlockStmt
						switch x := st.(type) {
						case *ast.ForStmt:
							inner = x.Body
						case *ast.RangeStmt:
							inner = x.Body
						}
						if inner == nil {
							continue
						}
						// bool locals assigned a constant in the inner loop
						flags := map[*types.Var]token.Pos{}
						ast.Inspect(inner, func(k ast.Node) bool {
							as, ok := k.(*ast.AssignStmt)
							if !ok || as.Tok != token.ASSIGN || len(as.Lhs) != len(as.Rhs) {
								return true
							}
							for i, l := range as.Lhs {
								id, ok := l.(*ast.Ident)
								if !ok {
									continue
								}
								v, _ := info.Uses[id].(*types.Var)
								if v == nil || v.IsField() {
									continue
								}
								if b, ok := v.Type().Underlying().(*types.Basic); !ok || b.Kind() != types.Bool {
									continue
								}
								if tv := info.Types[as.Rhs[i]]; tv.Value != nil {
									flags[v] = as.Pos()
								}
								// an accumulating verdict: v = v && e, v = v || e
								ast.Inspect(as.Rhs[i], func(q ast.Node) bool {
									if rid, ok := q.(*ast.Ident); ok && info.Uses[rid] == types.Object(v) {
										flags[v] = as.Pos()
									}
									return true
								})
							}
							return true
						})
						for v, wpos := range flags {
							// read in the outer body after the inner loop?
							read := false
							for _, later := range body.List[si+1:] {
								ast.Inspect(later, func(k ast.Node) bool {
									if id, ok := k.(*ast.Ident); ok && info.Uses[id] == types.Object(v) {
										read = true
									}
									return true
								})
							}
							if !read {
								continue
							}
							ord++
							ob := Obligation{Key: fmt.Sprintf("%s#%s%d", name, v.Name(), ord), Pos: c.Position(wpos), Status: OK}
							// declared or assigned in the outer body before the inner loop?
							fresh := v.Pos() >= body.Pos() && v.Pos() < st.Pos()
							if !fresh {
								for _, before := range body.List[:si] {
									if as, ok := before.(*ast.AssignStmt); ok {
										for _, l := range as.Lhs {
											if id, ok := l.(*ast.Ident); ok && (info.Uses[id] == types.Object(v) || info.Defs[id] == types.Object(v)) {
												fresh = true
											}
										}
									}
								}
							}
							if fresh {
								ob.Detail = fmt.Sprintf("flag %s starts afresh in every iteration of the enclosing loop (cleared in the inner loop at %s)", v.Name(), c.Position(wpos))
							} else {
								ob.Status = Violation
								ob.Detail = fmt.Sprintf("flag %s is set inside the inner loop (at %s) and read by the enclosing loop afterwards, but it is declared outside the enclosing loop and never re-initialised in it: once one iteration has changed it, every later iteration inherits the verdict",
									v.Name(), c.Position(wpos))
							}
							out = append(out, ob)
						}
					}
					visitOuter(body)
					return false
				})
			}
			visitOuter(fd.Body)
		}
	}
	return out
}

func runCatchUp(c *Ctx) []Obligation {
	var out []Obligation
	for _, rel := range []string{"ingest/compact", "search"} {
		p := c.Pkg(rel)
		if p == nil {
			continue
		}
		info := p.TypesInfo
		// fields assigned by plain assignment from something else, per receiver type
		plain := map[types.Object]string{}
		recvOf := func(fd *ast.FuncDecl) types.Object {
			if fd.Recv == nil || len(fd.Recv.List) != 1 || len(fd.Recv.List[0].Names) != 1 {
				return nil
			}
			return info.Defs[fd.Recv.List[0].Names[0]]
		}
		fieldOf := func(recv types.Object, e ast.Expr) types.Object {
			sel, ok := ast.Unparen(e).(*ast.SelectorExpr)
			if !ok {
				return nil
			}
			if id, ok := ast.Unparen(sel.X).(*ast.Ident); ok && info.Uses[id] == recv {
				if s := info.Selections[sel]; s != nil {
					return s.Obj()
				}
			}
			return nil
		}
		for _, fd := range c.FuncDecls(p) {
			recv := recvOf(fd)
			if recv == nil {
				continue
			}
			ast.Inspect(fd.Body, func(n ast.Node) bool {
				as, ok := n.(*ast.AssignStmt)
				if !ok || as.Tok != token.ASSIGN || len(as.Lhs) != len(as.Rhs) {
					return true
				}
				for i, l := range as.Lhs {
					f := fieldOf(recv, l)
					if f == nil {
						continue
					}
					selfRef := false
					ast.Inspect(as.Rhs[i], func(m ast.Node) bool {
						if e, ok := m.(ast.Expr); ok && fieldOf(recv, e) == f {
							selfRef = true
						}
						return true
					})
					if !selfRef {
						if _, seen := plain[f]; !seen {
							plain[f] = fmt.Sprintf("%s at %s", nodeText(c.Fset, as), c.Position(as.Pos()))
						}
					}
				}
				return true
			})
		}
		for _, fd := range c.FuncDecls(p) {
			recv := recvOf(fd)
			if recv == nil {
				continue
			}
			name := c.FuncName(p, fd)
			ord := 0
			ast.Inspect(fd.Body, func(n ast.Node) bool {
				var cond ast.Expr
				var body *ast.BlockStmt
				isLoop := false
				switch x := n.(type) {
				case *ast.ForStmt:
					if x.Init == nil && x.Post == nil && x.Cond != nil {
						cond, body, isLoop = x.Cond, x.Body, true
					}
				case *ast.IfStmt:
					if x.Else == nil && x.Init == nil {
						cond, body = x.Cond, x.Body
					}
				}
				if body == nil || len(body.List) != 1 {
					return true
				}
				inc, ok := body.List[0].(*ast.IncDecStmt)
				if !ok || inc.Tok != token.INC {
					return true
				}
				f := fieldOf(recv, inc.X)
				if f == nil {
					return true
				}
				// condition reads F and another receiver field G that is plainly assigned somewhere
				readsF := false
				var g types.Object
				ast.Inspect(cond, func(m ast.Node) bool {
					if e, ok := m.(ast.Expr); ok {
						if o := fieldOf(recv, e); o != nil {
							if o == f {
								readsF = true
							} else if _, ok := plain[o]; ok {
								if b, ok := o.Type().Underlying().(*types.Basic); ok && b.Info()&types.IsInteger != 0 {
									g = o
								}
							}
						}
					}
					return true
				})
				if !readsF || g == nil {
					return true
				}
				ord++
				ob := Obligation{Key: fmt.Sprintf("%s#%d", name, ord), Pos: c.Position(n.Pos()), Status: OK}
				if isLoop {
					ob.Detail = fmt.Sprintf("%s is stepped in a loop until it has caught up with %s (which %s can move arbitrarily)", f.Name(), g.Name(), plain[g])
				} else {
					ob.Status = Violation
					ob.Detail = fmt.Sprintf("%s is stepped at most once (`if %s { %s++ }`) to catch up with %s, but %s is repositioned by plain assignment (%s): after a jump over more than one section the index is still behind, and the next element is attributed to the wrong section",
						f.Name(), nodeText(c.Fset, cond), f.Name(), g.Name(), g.Name(), plain[g])
				}
				out = append(out, ob)
				return true
			})
		}
	}
	return out
}

func runStartFeature(c *Ctx) []Obligation {
	var out []Obligation
	p := c.Pkg("renderer")
	if p == nil {
		return out
	}
	info := p.TypesInfo
	for _, fd := range c.FuncDecls(p) {
		if fd.Recv != nil {
			continue
		}
		obj, _ := info.Defs[fd.Name].(*types.Func)
		if obj == nil {
			continue
		}
		sig := obj.Type().(*types.Signature)
		hasEnc := false
		for i := 0; i < sig.Params().Len(); i++ {
			if nt := namedOf(sig.Params().At(i).Type()); nt != nil && nt.Obj().Name() == "Encoder" {
				hasEnc = true
			}
		}
		if !hasEnc {
			continue
		}
		var starts []ast.Node
		inspectShallow(fd.Body, func(n ast.Node) bool {
			if call, ok := n.(*ast.CallExpr); ok {
				if sel, ok := ast.Unparen(call.Fun).(*ast.SelectorExpr); ok && sel.Sel.Name == "StartFeature" {
					starts = append(starts, call)
				}
			}
			return true
		})
		if len(starts) == 0 {
			continue
		}
		ob := Obligation{Key: c.FuncName(p, fd), Pos: c.Position(fd.Pos()), Status: OK}
		g := newCFG(info, fd.Body)
		contains := func(n ast.Node) bool {
			hit := false
			ast.Inspect(n, func(m ast.Node) bool {
				for _, s := range starts {
					if m == s {
						hit = true
					}
				}
				return !hit
			})
			return hit
		}
		var bad []string
		seen := map[int32]bool{}
		var walk func(bi int32)
		walk = func(bi int32) {
			if seen[bi] {
				return
			}
			seen[bi] = true
			b := g.Blocks[bi]
			for _, n := range b.Nodes {
				if contains(n) {
					return
				}
				if r, ok := n.(*ast.ReturnStmt); ok {
					bad = append(bad, c.Position(r.Pos()))
					return
				}
			}
			if len(b.Succs) == 0 && b.Live {
				// falling off the end of the function without a start
				if bi != 0 || len(b.Nodes) > 0 {
					bad = append(bad, "the end of the function")
				}
				return
			}
			for _, s := range b.Succs {
				walk(s.Index)
			}
		}
		if len(g.Blocks) > 0 {
			walk(0)
		}
		if len(bad) > 0 {
			ob.Status = Violation
			ob.Detail = fmt.Sprintf("%s can reach %s without calling StartFeature: EncodeTile then writes this feature's ID and tags onto the previous feature of the layer (or onto a nil feature if it is the first)", obj.Name(), strings.Join(bad, ", "))
		} else {
			ob.Detail = fmt.Sprintf("%s starts a feature on every path", obj.Name())
		}
		out = append(out, ob)
	}
	return out
}
