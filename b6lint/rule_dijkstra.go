package main

import (
	"bytes"
	"fmt"
	"go/ast"
	"go/printer"
	"go/token"
	"go/types"
	"strings"
)

// shapeText renders a statement tree with the names of the locals declared inside it replaced by
// their order of first appearance, so that two copies that differ only in local names compare equal.
func shapeText(info *types.Info, root ast.Node) string {
	var b strings.Builder
	local := map[types.Object]int{}
	ast.Inspect(root, func(n ast.Node) bool {
		switch x := n.(type) {
		case nil:
			b.WriteString(")")
			return true
		case *ast.Ident:
			obj := info.Defs[x]
			if obj == nil {
				obj = info.Uses[x]
			}
			if v, ok := obj.(*types.Var); ok && !v.IsField() && v.Pos() >= root.Pos() && v.Pos() < root.End() {
				if _, seen := local[obj]; !seen {
					local[obj] = len(local)
				}
				fmt.Fprintf(&b, "(v%d", local[obj])
			} else {
				b.WriteString("(" + x.Name)
			}
		case *ast.BasicLit:
			b.WriteString("(" + x.Value)
		case *ast.BinaryExpr:
			b.WriteString("(" + x.Op.String())
		case *ast.UnaryExpr:
			b.WriteString("(" + x.Op.String())
		case *ast.AssignStmt:
			b.WriteString("(" + x.Tok.String())
		default:
			fmt.Fprintf(&b, "(%T", n)
		}
		return true
	})
	return b.String()
}

// srcText prints a syntax node in full (nodeText abbreviates and does not print statements).
func srcText(fset *token.FileSet, n ast.Node) string {
	var b bytes.Buffer
	if err := printer.Fprint(&b, fset, n); err != nil {
		return fmt.Sprintf("%T", n)
	}
	return b.String()
}

// DIJKSTRA-SHAPE (C30): the shortest-path search is Dijkstra's algorithm over a hand-written
// indexed binary heap. Its answers are shortest distances only if a handful of structural facts
// hold, each of which is visible in the code:
//
//	#less     the heap orders entries by their distance field with `<` (a min-heap on distance);
//	#swap     Swap exchanges two queue slots and then stores each slot's own index into the entry
//	          it now holds (the index is what heap.Fix is later called with);
//	#push     Push appends the entry and records len-1 as its index; Pop marks the removed entry's
//	          index negative;
//	#decrease wherever the distance of an entry that is already known is lowered, the predecessor
//	          segment is stored in the same block and heap.Fix is called with the entry's index —
//	          distance, predecessor and heap position change together (the cost of a route is the
//	          distance of its last step only because of this pairing);
//	#relax    in every search loop the candidate distance compared with the limit is the same
//	          expression that is handed to AddOrUpdate, the popped entry is marked visited before
//	          its edges are relaxed, visited neighbours are skipped, and unusable segments are not
//	          weighed (IsUseable guards Weight);
//	#stop     a search loop is left early only on a condition about the entry just popped (its
//	          point is the destination; its distance exceeds the destination's): only a popped
//	          entry's distance is final;
//	#walk     where a route is read off by walking predecessors, the test that lets the walk move on
//	          is about the predecessor field it follows, not about the distance;
//	#siblings ExpandSearch and ExpandSearchTo relax edges with structurally identical code (the
//	          arguments of AddOrUpdate apart).
//
// Slots (by shape, package graph): the type that implements container/heap.Interface over a slice
// of pointers to a struct with a float64 field (the distance) and an int field (the index); its
// methods that call heap.Pop in a loop are the search loops.
func init() {
	register(&Rule{
		Name:  "DIJKSTRA-SHAPE",
		IR:    "ast",
		Props: []string{"C30"},
		Floor: 10,
		Doc: "the shortest-path search keeps the structural invariants of Dijkstra's algorithm over its indexed heap: min-order on distance, index bookkeeping in Swap/Push/Pop, distance+predecessor+heap.Fix updated together, " +
			"the relaxed candidate compared with the limit is the one stored, popped entries are settled and skipped, and the two search loops relax edges identically",
		Run: runDijkstraShape,
	})
}

func runDijkstraShape(c *Ctx) []Obligation {
	var out []Obligation
	p := c.Pkg("graph")
	if p == nil {
		return out
	}
	info := p.TypesInfo
	// the heap type: has Len, Less, Swap, Push, Pop
	methods := map[string]map[string]*ast.FuncDecl{}
	for _, fd := range c.FuncDecls(p) {
		if fd.Recv == nil {
			continue
		}
		obj, _ := info.Defs[fd.Name].(*types.Func)
		if obj == nil {
			continue
		}
		if n := namedOf(obj.Type().(*types.Signature).Recv().Type()); n != nil {
			if methods[n.Obj().Name()] == nil {
				methods[n.Obj().Name()] = map[string]*ast.FuncDecl{}
			}
			methods[n.Obj().Name()][fd.Name.Name] = fd
		}
	}
	for tname, ms := range methods {
		if ms["Len"] == nil || ms["Less"] == nil || ms["Swap"] == nil || ms["Push"] == nil || ms["Pop"] == nil {
			continue
		}
		key := func(s string) string { return "graph.(*" + tname + ")." + s }
		add := func(k string, pos token.Pos, ok bool, good, bad string) {
			ob := Obligation{Key: k, Pos: c.Position(pos), Status: OK, Detail: good}
			if !ok {
				ob.Status, ob.Detail = Violation, bad
			}
			out = append(out, ob)
		}
		// #less: return A.distance < B.distance
		distField, indexField := "", ""
		{
			fd := ms["Less"]
			ok := false
			ast.Inspect(fd.Body, func(n ast.Node) bool {
				r, isRet := n.(*ast.ReturnStmt)
				if !isRet || len(r.Results) != 1 {
					return true
				}
				be, isBin := ast.Unparen(r.Results[0]).(*ast.BinaryExpr)
				if !isBin {
					return true
				}
				sx, ok1 := ast.Unparen(be.X).(*ast.SelectorExpr)
				sy, ok2 := ast.Unparen(be.Y).(*ast.SelectorExpr)
				if ok1 && ok2 && sx.Sel.Name == sy.Sel.Name {
					distField = sx.Sel.Name
					// i on the left, j on the right
					ix, okx := ast.Unparen(sx.X).(*ast.IndexExpr)
					iy, oky := ast.Unparen(sy.X).(*ast.IndexExpr)
					if okx && oky && be.Op == token.LSS && nodeText(c.Fset, ix.Index) == fd.Type.Params.List[0].Names[0].Name {
						_ = iy
						ok = true
					}
				}
				return true
			})
			add(key("Less"), fd.Pos(), ok, fmt.Sprintf("Less orders the queue by %s with <: the entry popped is the one with the smallest distance", distField),
				fmt.Sprintf("Less is not `queue[i].%s < queue[j].%s`: the heap no longer yields the closest unsettled point first, so a point can be settled with a distance that is not minimal", distField, distField))
		}
		// #swap: after the exchange, slot k's entry gets index k
		{
			fd := ms["Swap"]
			stores := map[string]string{}
			ast.Inspect(fd.Body, func(n ast.Node) bool {
				as, ok := n.(*ast.AssignStmt)
				if !ok || len(as.Lhs) != 1 || len(as.Rhs) != 1 {
					return true
				}
				sel, ok := ast.Unparen(as.Lhs[0]).(*ast.SelectorExpr)
				if !ok {
					return true
				}
				if ix, ok := ast.Unparen(sel.X).(*ast.IndexExpr); ok {
					indexField = sel.Sel.Name
					stores[nodeText(c.Fset, ix.Index)] = nodeText(c.Fset, as.Rhs[0])
				}
				return true
			})
			ok := len(stores) == 2
			for k, v := range stores {
				if k != v {
					ok = false
				}
			}
			add(key("Swap"), fd.Pos(), ok, fmt.Sprintf("Swap stores each slot's own position into the entry it holds (%v)", stores),
				fmt.Sprintf("Swap does not record, for both exchanged slots, the slot's own position in the entry's %s field (%v): heap.Fix is later called with a stale position and re-orders the wrong entry", indexField, stores))
		}
		// #push / #pop
		{
			fd := ms["Push"]
			ok := false
			ast.Inspect(fd.Body, func(n ast.Node) bool {
				as, isAs := n.(*ast.AssignStmt)
				if !isAs || len(as.Lhs) != 1 || len(as.Rhs) != 1 {
					return true
				}
				if sel, isSel := ast.Unparen(as.Lhs[0]).(*ast.SelectorExpr); isSel && sel.Sel.Name == indexField {
					if be, isBin := ast.Unparen(as.Rhs[0]).(*ast.BinaryExpr); isBin && be.Op == token.SUB {
						if call, isCall := ast.Unparen(be.X).(*ast.CallExpr); isCall && isBuiltin(info, call, "len") {
							if tv := info.Types[be.Y]; tv.Value != nil && tv.Value.ExactString() == "1" {
								ok = true
							}
						}
					}
				}
				return true
			})
			add(key("Push"), fd.Pos(), ok, "Push records len(queue)-1 as the new entry's position", "Push does not record len(queue)-1 as the new entry's position: a later decrease of this entry's distance fixes the wrong heap slot")
			pd := ms["Pop"]
			okp := false
			ast.Inspect(pd.Body, func(n ast.Node) bool {
				as, isAs := n.(*ast.AssignStmt)
				if !isAs || len(as.Lhs) != 1 || len(as.Rhs) != 1 {
					return true
				}
				if sel, isSel := ast.Unparen(as.Lhs[0]).(*ast.SelectorExpr); isSel && sel.Sel.Name == indexField {
					if tv := info.Types[as.Rhs[0]]; tv.Value != nil && strings.HasPrefix(tv.Value.ExactString(), "-") {
						okp = true
					}
				}
				return true
			})
			add(key("Pop"), pd.Pos(), okp, "Pop marks the removed entry's position negative", "Pop does not mark the removed entry's position negative")
		}
		// #decrease: assignments to X.distance outside Less/constructors: same block has X.segment = … and heap.Fix(s, X.index)
		for mname, fd := range ms {
			if mname == "Less" || mname == "Swap" || mname == "Push" || mname == "Pop" {
				continue
			}
			ord := 0
			ast.Inspect(fd.Body, func(n ast.Node) bool {
				blk, ok := n.(*ast.BlockStmt)
				if !ok {
					return true
				}
				for _, st := range blk.List {
					as, ok := st.(*ast.AssignStmt)
					if !ok || len(as.Lhs) != 1 || as.Tok != token.ASSIGN {
						continue
					}
					sel, ok := ast.Unparen(as.Lhs[0]).(*ast.SelectorExpr)
					if !ok || sel.Sel.Name != distField {
						continue
					}
					base := nodeText(c.Fset, sel.X)
					ord++
					hasSeg, hasFix, fixEarly := false, false, false
					for _, st2 := range blk.List {
						if as2, ok := st2.(*ast.AssignStmt); ok && len(as2.Lhs) == 1 {
							if s2, ok := ast.Unparen(as2.Lhs[0]).(*ast.SelectorExpr); ok && nodeText(c.Fset, s2.X) == base && s2.Sel.Name != distField {
								if _, isStruct := info.TypeOf(s2).Underlying().(*types.Struct); isStruct {
									hasSeg = true
								}
							}
						}
						if es, ok := st2.(*ast.ExprStmt); ok {
							if call, ok := es.X.(*ast.CallExpr); ok {
								if fn := calleeFunc(info, call); fn != nil && fn.Pkg() != nil && fn.Pkg().Path() == "container/heap" && fn.Name() == "Fix" && len(call.Args) == 2 {
									if nodeText(c.Fset, call.Args[1]) == base+"."+indexField {
										hasFix = true
										if call.Pos() < as.Pos() {
											fixEarly = true
										}
									}
								}
							}
						}
					}
					if hasSeg && hasFix && fixEarly {
						add(fmt.Sprintf("%s#decrease%d", key(mname), ord), as.Pos(), false, "",
							fmt.Sprintf("heap.Fix is called before %s is lowered at %s: the heap is repaired for the old key, the entry stays where it was, and a point with a larger distance is popped and settled first", nodeText(c.Fset, as.Lhs[0]), c.Position(as.Pos())))
						continue
					}
					add(fmt.Sprintf("%s#decrease%d", key(mname), ord), as.Pos(), hasSeg && hasFix,
						fmt.Sprintf("%s is lowered together with the predecessor segment and heap.Fix(s, %s.%s)", nodeText(c.Fset, as.Lhs[0]), base, indexField),
						fmt.Sprintf("%s is lowered at %s without %s in the same block: the heap or the route no longer agrees with the distance", nodeText(c.Fset, as.Lhs[0]), c.Position(as.Pos()),
							map[bool]string{true: "heap.Fix on the entry's position", false: "storing the predecessor segment"}[hasSeg]))
				}
				return true
			})
		}
		// #walk: a route is read off by walking predecessors: `if r, ok := s.byPoint[p]; ok && <test> {
		// … p = r.F.… }`. The walk moves along the struct-typed field F of the entry (the predecessor
		// segment), so the test that lets it move has to be about F (is there a predecessor?), not
		// about another field such as the distance (a point reached over zero-cost segments is not the
		// origin).
		for mname, fd := range ms {
			ord := 0
			ast.Inspect(fd.Body, func(n ast.Node) bool {
				ifs, ok := n.(*ast.IfStmt)
				if !ok || ifs.Init == nil {
					return true
				}
				init, ok := ifs.Init.(*ast.AssignStmt)
				if !ok || len(init.Lhs) != 2 || len(init.Rhs) != 1 {
					return true
				}
				if _, isIx := ast.Unparen(init.Rhs[0]).(*ast.IndexExpr); !isIx {
					return true
				}
				rid, ok := init.Lhs[0].(*ast.Ident)
				if !ok || info.Defs[rid] == nil {
					return true
				}
				r := info.Defs[rid]
				// the body moves along r.F (a struct-typed field of the entry)
				followed := ""
				ast.Inspect(ifs.Body, func(m ast.Node) bool {
					as, ok := m.(*ast.AssignStmt)
					if !ok || len(as.Lhs) != 1 || len(as.Rhs) != 1 {
						return true
					}
					if _, isIdent := as.Lhs[0].(*ast.Ident); !isIdent {
						return true
					}
					ast.Inspect(as.Rhs[0], func(k ast.Node) bool {
						if sel, ok := k.(*ast.SelectorExpr); ok {
							if x, ok := ast.Unparen(sel.X).(*ast.Ident); ok && info.Uses[x] == r {
								if _, isStruct := info.TypeOf(sel).Underlying().(*types.Struct); isStruct {
									followed = sel.Sel.Name
								}
							}
						}
						return true
					})
					return true
				})
				if followed == "" {
					return true
				}
				tests := false
				ast.Inspect(ifs.Cond, func(k ast.Node) bool {
					if sel, ok := k.(*ast.SelectorExpr); ok && sel.Sel.Name == followed {
						if x, ok := ast.Unparen(sel.X).(*ast.Ident); ok && info.Uses[x] == r {
							tests = true
						}
					}
					return true
				})
				ord++
				add(fmt.Sprintf("%s#walk%d", key(mname), ord), ifs.Pos(), tests,
					fmt.Sprintf("%s walks back along %s.%s while %s", mname, rid.Name, followed, srcText(c.Fset, ifs.Cond)),
					fmt.Sprintf("%s walks back along %s.%s, but the test that lets it move on (%s) does not look at %s: an entry without a predecessor can be followed, or one with a predecessor taken for the origin (a point reached at distance 0)", mname, rid.Name, followed, srcText(c.Fset, ifs.Cond), followed))
				return true
			})
		}
		// the method that stores a candidate distance: the one with the #decrease block
		storeMethod := ""
		for _, o := range out {
			if i := strings.Index(o.Key, "#decrease"); i >= 0 {
				k := o.Key[:i]
				storeMethod = k[strings.LastIndex(k, ".")+1:]
			}
		}
		// search loops: methods with `for s.Len() > 0 { r := heap.Pop(s) … }`
		var relaxTexts []string
		var relaxNames []string
		for mname, fd := range ms {
			var loop *ast.ForStmt
			ast.Inspect(fd.Body, func(n ast.Node) bool {
				if fs, ok := n.(*ast.ForStmt); ok && loop == nil {
					ast.Inspect(fs.Body, func(m ast.Node) bool {
						if call, ok := m.(*ast.CallExpr); ok {
							if fn := calleeFunc(info, call); fn != nil && fn.Pkg() != nil && fn.Pkg().Path() == "container/heap" && fn.Name() == "Pop" {
								loop = fs
							}
						}
						return true
					})
				}
				return true
			})
			if loop == nil {
				continue
			}
			// the inner relaxation loop
			var inner *ast.ForStmt
			visitedPos, innerPos := token.NoPos, token.NoPos
			visitedField := ""
			for _, st := range loop.Body.List {
				if as, ok := st.(*ast.AssignStmt); ok && len(as.Lhs) == 1 {
					if sel, ok := ast.Unparen(as.Lhs[0]).(*ast.SelectorExpr); ok {
						if b, isB := info.TypeOf(sel).Underlying().(*types.Basic); isB && b.Kind() == types.Bool {
							if tv := info.Types[as.Rhs[0]]; tv.Value != nil && tv.Value.ExactString() == "true" {
								visitedPos = as.Pos()
								visitedField = sel.Sel.Name
							}
						}
					}
				}
				if fs, ok := st.(*ast.ForStmt); ok {
					inner, innerPos = fs, fs.Pos()
				}
			}
			if inner == nil {
				out = append(out, Obligation{Key: key(mname) + "#relax", Pos: c.Position(loop.Pos()), Status: Undecided, Detail: "search loop without a recognisable relaxation loop"})
				continue
			}
			// #stop: an early exit from the search loop is decided about the entry just popped
			var popped types.Object
			for _, st := range loop.Body.List {
				if as, ok := st.(*ast.AssignStmt); ok && len(as.Lhs) == 1 && len(as.Rhs) == 1 && popped == nil {
					isPop := false
					ast.Inspect(as.Rhs[0], func(n ast.Node) bool {
						if call, ok := n.(*ast.CallExpr); ok {
							if fn := calleeFunc(info, call); fn != nil && fn.Pkg() != nil && fn.Pkg().Path() == "container/heap" && fn.Name() == "Pop" {
								isPop = true
							}
						}
						return true
					})
					if id, ok := as.Lhs[0].(*ast.Ident); ok && isPop {
						popped = info.Defs[id]
					}
				}
			}
			for _, st := range loop.Body.List {
				ifs, ok := st.(*ast.IfStmt)
				if !ok || popped == nil || len(ifs.Body.List) != 1 {
					continue
				}
				if br, ok := ifs.Body.List[0].(*ast.BranchStmt); !ok || br.Tok != token.BREAK {
					if _, isRet := ifs.Body.List[0].(*ast.ReturnStmt); !isRet {
						continue
					}
				}
				var disjuncts func(e ast.Expr) []ast.Expr
				disjuncts = func(e ast.Expr) []ast.Expr {
					e = ast.Unparen(e)
					if b, ok := e.(*ast.BinaryExpr); ok && b.Op == token.LOR {
						return append(disjuncts(b.X), disjuncts(b.Y)...)
					}
					return []ast.Expr{e}
				}
				bad := ""
				for _, d := range disjuncts(ifs.Cond) {
					mentions := false
					ast.Inspect(d, func(n ast.Node) bool {
						if id, ok := n.(*ast.Ident); ok && info.Uses[id] == popped {
							mentions = true
						}
						return true
					})
					if !mentions {
						bad = srcText(c.Fset, d)
					}
				}
				add(key(mname)+"#stop", ifs.Pos(), bad == "",
					fmt.Sprintf("%s leaves the search loop early only on conditions about the entry just popped (%s)", mname, srcText(c.Fset, ifs.Cond)),
					fmt.Sprintf("%s leaves the search loop when %s, a condition that does not involve the entry just popped: only the popped entry's distance is final, so a stop decided about anything else (a tentative distance of the destination, the limit) can return a distance that a later pop would have lowered", mname, bad))
			}
			// the distance limit is a float64 parameter of the search method; usability and weight are a
			// bool-returning and a float64-returning method called on an interface-typed parameter
			mobj, _ := info.Defs[fd.Name].(*types.Func)
			msig := mobj.Type().(*types.Signature)
			isFloatParam := func(id *ast.Ident) bool {
				for i := 0; i < msig.Params().Len(); i++ {
					if info.Uses[id] == types.Object(msig.Params().At(i)) {
						b, ok := msig.Params().At(i).Type().Underlying().(*types.Basic)
						return ok && b.Kind() == types.Float64
					}
				}
				return false
			}
			ifaceCall := func(n ast.Node, kind types.BasicKind) bool {
				found := false
				ast.Inspect(n, func(m ast.Node) bool {
					call, ok := m.(*ast.CallExpr)
					if !ok {
						return true
					}
					sel, ok := ast.Unparen(call.Fun).(*ast.SelectorExpr)
					if !ok {
						return true
					}
					if _, isIface := info.TypeOf(sel.X).Underlying().(*types.Interface); !isIface {
						return true
					}
					if b, ok := info.TypeOf(call).Underlying().(*types.Basic); ok && b.Kind() == kind {
						found = true
					}
					return true
				})
				return found
			}
			var problems []string
			if visitedPos == token.NoPos || visitedPos > innerPos {
				problems = append(problems, "the popped entry is not marked visited before its edges are relaxed")
			}
			skips := false
			ast.Inspect(inner.Body, func(n ast.Node) bool {
				if sel, ok := n.(*ast.SelectorExpr); ok && visitedField != "" && sel.Sel.Name == visitedField {
					skips = true
				}
				return true
			})
			if !skips {
				problems = append(problems, "settled neighbours are not skipped")
			}
			// candidate compared with the limit == candidate stored
			var cmp, stored string
			isUseableGuardsWeight := false
			ast.Inspect(inner.Body, func(n ast.Node) bool {
				switch x := n.(type) {
				case *ast.IfStmt:
					if be, ok := ast.Unparen(x.Cond).(*ast.BinaryExpr); ok && (be.Op == token.LSS || be.Op == token.LEQ) {
						if id, ok := ast.Unparen(be.Y).(*ast.Ident); ok && isFloatParam(id) {
							cmp = srcText(c.Fset, be.X)
						}
					}
					if ifaceCall(x.Cond, types.Bool) && ifaceCall(x.Body, types.Float64) {
						isUseableGuardsWeight = true
					}
				case *ast.CallExpr:
					if sel, ok := ast.Unparen(x.Fun).(*ast.SelectorExpr); ok && sel.Sel.Name == storeMethod && len(x.Args) >= 2 {
						stored = srcText(c.Fset, x.Args[1])
					}
				}
				return true
			})
			if cmp == "" || stored == "" || cmp != stored {
				problems = append(problems, fmt.Sprintf("the candidate compared with the limit (%q) is not the distance that is stored (%q)", cmp, stored))
			}
			if !isUseableGuardsWeight {
				problems = append(problems, "the segment is weighed without first asking the weights whether it is usable")
			}
			add(key(mname)+"#relax", loop.Pos(), len(problems) == 0,
				fmt.Sprintf("%s settles the popped point, skips settled neighbours, weighs usable segments only, and stores the candidate %s it compared with the limit", mname, stored),
				mname+": "+strings.Join(problems, "; "))
			// shape for sibling comparison: local names normalised, the trailing arguments of AddOrUpdate
			// (which legitimately differ: the feature set collected) removed
			shape := shapeText(info, inner.Body)
			ast.Inspect(inner.Body, func(n ast.Node) bool {
				if call, ok := n.(*ast.CallExpr); ok && len(call.Args) > 2 {
					if sel, ok := ast.Unparen(call.Fun).(*ast.SelectorExpr); ok && sel.Sel.Name == storeMethod {
						for _, a := range call.Args[2:] {
							shape = strings.Replace(shape, shapeText(info, a), "(arg)", 1)
						}
					}
				}
				return true
			})
			relaxTexts = append(relaxTexts, shape)
			relaxNames = append(relaxNames, mname)
		}
		if len(relaxTexts) >= 2 {
			same := true
			for _, t := range relaxTexts[1:] {
				if t != relaxTexts[0] {
					same = false
				}
			}
			add(key("")+"#siblings", ms["Less"].Pos(), same,
				fmt.Sprintf("the search loops %v relax edges with identical code", relaxNames),
				fmt.Sprintf("the search loops %v relax edges differently: one of them has drifted from the other (compare the relaxation loops statement by statement)", relaxNames))
		}
	}
	return out
}
