package main

import (
	"fmt"
	"go/ast"
	"go/types"
	"strings"
)

// GROUP-CONTEXT (C23, C28): `g, c := errgroup.WithContext(parent)` gives a context that is
// cancelled as soon as one goroutine of the group returns an error. A feeder goroutine of the group
// that blocks on a send must give up when that happens — it selects on `c.Done()`. Selecting on
// another context's Done (the request's, which nobody cancels) compiles and behaves alike until
// every worker has failed: then the feeder blocks for ever on its send, `g.Wait()` never returns,
// and the request hangs holding the server's read lock.
//
// Subjects, by type (whole module): functions that call errgroup.WithContext and bind its second
// result to a variable c. Obligation per receive from a `Done()` channel inside a function literal
// handed to the group's Go method: the channel is c.Done().
func init() {
	register(&Rule{
		Name:  "GROUP-CONTEXT",
		IR:    "ast",
		Props: []string{"C23", "C28"},
		Floor: 2,
		Doc:   "a goroutine of an errgroup that waits for cancellation waits on the group's own context (the second result of errgroup.WithContext), which is cancelled when a sibling fails — not on another context that nobody cancels",
		Run:   runGroupContext,
	})
}

func runGroupContext(c *Ctx) []Obligation {
	var out []Obligation
	for _, p := range c.SortedPkgs() {
		info := p.TypesInfo
		for _, fd := range c.FuncDecls(p) {
			if fd.Body == nil {
				continue
			}
			var group, gctx types.Object
			ast.Inspect(fd.Body, func(n ast.Node) bool {
				as, ok := n.(*ast.AssignStmt)
				if !ok || len(as.Lhs) != 2 || len(as.Rhs) != 1 {
					return true
				}
				call, ok := ast.Unparen(as.Rhs[0]).(*ast.CallExpr)
				if !ok {
					return true
				}
				f := calleeFunc(info, call)
				if f == nil || f.Name() != "WithContext" || f.Pkg() == nil || !strings.HasSuffix(f.Pkg().Path(), "errgroup") {
					return true
				}
				if id, ok := as.Lhs[0].(*ast.Ident); ok {
					group = info.Defs[id]
					if group == nil {
						group = info.Uses[id]
					}
				}
				if id, ok := as.Lhs[1].(*ast.Ident); ok && id.Name != "_" {
					gctx = info.Defs[id]
					if gctx == nil {
						gctx = info.Uses[id]
					}
				}
				return true
			})
			if group == nil || gctx == nil {
				continue
			}
			name := c.FuncName(p, fd)
			ord := 0
			ast.Inspect(fd.Body, func(n ast.Node) bool {
				call, ok := n.(*ast.CallExpr)
				if !ok || len(call.Args) != 1 {
					return true
				}
				sel, ok := ast.Unparen(call.Fun).(*ast.SelectorExpr)
				if !ok || sel.Sel.Name != "Go" {
					return true
				}
				if id, ok := ast.Unparen(sel.X).(*ast.Ident); !ok || info.Uses[id] != group {
					return true
				}
				fl, ok := ast.Unparen(call.Args[0]).(*ast.FuncLit)
				if !ok {
					return true
				}
				ast.Inspect(fl.Body, func(m ast.Node) bool {
					u, ok := m.(*ast.UnaryExpr)
					if !ok || u.Op.String() != "<-" {
						return true
					}
					dc, ok := ast.Unparen(u.X).(*ast.CallExpr)
					if !ok {
						return true
					}
					ds, ok := ast.Unparen(dc.Fun).(*ast.SelectorExpr)
					if !ok || ds.Sel.Name != "Done" || len(dc.Args) != 0 {
						return true
					}
					ord++
					ob := Obligation{Key: fmt.Sprintf("%s#%d", name, ord), Pos: c.Position(u.Pos()), Status: OK,
						Detail: fmt.Sprintf("%s waits on the group's own context", srcText(c.Fset, u))}
					if id, ok := ast.Unparen(ds.X).(*ast.Ident); !ok || info.Uses[id] != gctx {
						ob.Status = Violation
						ob.Detail = fmt.Sprintf("%s waits on a context other than the group's (%s, from errgroup.WithContext): when the other goroutines of the group have failed nothing cancels it, the goroutine blocks for ever and Wait never returns", srcText(c.Fset, u), gctx.Name())
					}
					out = append(out, ob)
					return true
				})
				return true
			})
		}
	}
	return out
}
