package main

import (
	"fmt"
	"go/ast"
	"go/types"
)

// MEMBER-KEY (C29): an OSM relation member is mapped to a feature ID by looking its ID up in
// the sets of ways/relations that represent areas. The lookup must be keyed by the member,
// not by the relation that contains it.
//
// Slots, by type in every module package (function literals included): range statements
// whose element type is osm.Member (the loops over `relation.Members` in ingest.pbfSource.Read,
// ingest.reassembleMultiPolygon and compact.(*Relation).FromOSM today); inside the loop body
// every membership test — a call of a method of ingest.IDSet that takes one argument and
// returns bool (IDSet.Has).
//
// Obligation per test: the argument is data-dependent on the loop's range variables: it
// mentions the member variable, or a local that was (transitively) assigned from it inside
// the loop body. An argument built only from names bound outside the loop (the enclosing
// relation `e`) is a violation.
// Accepted idioms: uint64(m.ID); m.WayID()/m.RelationID() and conversions of them; a local
// `id := m.ID` used later; indexing relation.Members[i] with the loop key.
func init() {
	register(&Rule{
		Name:  "MEMBER-KEY",
		IR:    "ast",
		Props: []string{"C29"},
		// ingest.(*pbfSource).Read#1,#2; ingest.reassembleMultiPolygon#1; ingest/compact.(*Relation).FromOSM#1,#2
		Floor: 5,
		Doc: "inside every loop over the members of an OSM relation, the argument of each IDSet membership test that selects the member's " +
			"feature type depends on the loop variable (the member), not on the enclosing element",
		Run: runMemberKey,
	})
}

func runMemberKey(c *Ctx) []Obligation {
	var out []Obligation
	osmPath := ModulePath + "/osm"
	ingPath := ModulePath + "/ingest"
	for _, p := range c.SortedPkgs() {
		info := p.TypesInfo
		for _, fd := range c.FuncDecls(p) {
			name := c.FuncName(p, fd)
			ord := 0
			done := map[*ast.CallExpr]bool{}
			ast.Inspect(fd.Body, func(n ast.Node) bool {
				rs, ok := n.(*ast.RangeStmt)
				if !ok {
					return true
				}
				xt := info.TypeOf(rs.X)
				if xt == nil {
					return true
				}
				var et types.Type
				switch u := xt.Underlying().(type) {
				case *types.Slice:
					et = u.Elem()
				case *types.Array:
					et = u.Elem()
				case *types.Pointer:
					if a, ok := u.Elem().Underlying().(*types.Array); ok {
						et = a.Elem()
					}
				}
				if et == nil || !isNamed(et, osmPath, "Member") {
					return true
				}
				var seeds []types.Object
				var names []string
				for _, v := range []ast.Expr{rs.Key, rs.Value} {
					if id, ok := v.(*ast.Ident); ok && id.Name != "_" {
						if o := info.ObjectOf(id); o != nil {
							seeds = append(seeds, o)
							names = append(names, id.Name)
						}
					}
				}
				deps := fDependents(info, rs.Body, seeds...)
				ast.Inspect(rs.Body, func(m ast.Node) bool {
					call, ok := m.(*ast.CallExpr)
					if !ok || done[call] {
						return true
					}
					f := calleeFunc(info, call)
					if f == nil {
						return true
					}
					sig := f.Type().(*types.Signature)
					if sig.Recv() == nil || !isNamed(sig.Recv().Type(), ingPath, "IDSet") || sig.Params().Len() != 1 || sig.Results().Len() != 1 {
						return true
					}
					if b, ok := sig.Results().At(0).Type().Underlying().(*types.Basic); !ok || b.Kind() != types.Bool {
						return true
					}
					done[call] = true
					ord++
					ob := Obligation{Key: fmt.Sprintf("%s#%d", name, ord), Pos: c.Position(call.Pos())}
					arg := call.Args[0]
					loop := fmt.Sprintf("loop over %s at %s", types.ExprString(rs.X), c.Position(rs.Pos()))
					if len(seeds) > 0 && fMentions(info, arg, deps) {
						ob.Status = OK
						ob.Detail = fmt.Sprintf("%s: %s is keyed by the member (%v)", loop, nodeText(c.Fset, call), names)
					} else {
						ob.Status = Violation
						used := map[types.Object]bool{}
						fIdentObjs(info, arg, used)
						var outer []string
						for o := range used {
							if v, isVar := o.(*types.Var); isVar && !v.IsField() {
								outer = append(outer, o.Name())
							}
						}
						ob.Detail = fmt.Sprintf("%s: the argument of %s does not depend on the member %v; it is computed from %v, which is bound outside the loop, so every member of the relation gets the type looked up for that element",
							loop, nodeText(c.Fset, call), names, fSortedStrings(outer))
					}
					out = append(out, ob)
					return true
				})
				return true
			})
		}
	}
	return out
}
