package main

import (
	"fmt"
	"go/ast"
	"go/constant"
	"go/token"
	"go/types"
	"sort"
	"strings"
)

// MIRROR-ROTATIONS (C07): the AVL code of package search is written twice, once per side:
// rotateLeft / rotateRight, rotateRightLeft / rotateLeftRight, and the two arms of every
// `if child == parent.right { ... } else { ... }`. Each copy must be the exact mirror image of
// the other; a constant or link copied from the sibling without mirroring it (balance +1
// where -1 is due) leaves a tree that records the wrong balance.
//
// The mirror map M: child-link fields are swapped (left <-> right); every integer constant
// assigned to or compared with a balance value is negated; ordered comparisons of balance
// values change direction (< <-> >, <= <-> >=; == and != stay); ++ and -- on a balance value are
// swapped; a call of a rotation function becomes a call of its mirror partner. A balance value is
// a selector of a position field of the node type (the integer fields rotations assign, see
// TAKEOVER-COMPLETE) or a local variable of that field's type. Everything else must be equal
// structurally: identifiers are resolved to objects, parameters are matched by position and
// locals by the order of their first definition, so names do not matter; a comparison may be
// written either way round (a < k or k > a) and constants are compared by value (+1 is 1).
//
// Instances (package search, node type by shape as in PARENT-PAIRING):
//
//	pairs  the rotation functions (found as in ROTATE-RELINK) are paired by shape: the sequence of
//	       child-link fields a function touches, in source order (rotateLeft: R L R R L L), must be
//	       the complement of its partner's. One instance per pair, keyed by the function that comes
//	       first in the source (`search.rotateLeft#1`, `search.rotateRightLeft#1`); a rotation
//	       function without a partner is a violation of its own.
//	arms   in functions that call rotation functions or store child links: every if statement
//	       with a block else whose condition compares a node with a child link of another
//	       (`A == B.left`, `B.right == A`, either side) and that is not itself the `else if` of a
//	       chain (there the else is a third case): the then-arm must equal M(else-arm).
//	       Keyed `<function>#n` in source order (rebalanceAfterInsert 2, rebalanceBeforeDelete 2,
//	       replaceInGrandparent 1).
//
// A violation names the first statement that differs on each side. Statement or expression
// forms the comparer does not know (anything but assignments, if/else, for, return, branch,
// inc/dec, expression statements, short variable declarations and var declarations; identifiers,
// selectors, calls, unary/binary/paren/star/index expressions, literals) are undecided.
// Not covered: code that is symmetric by design but written differently on the two sides;
// whether the common (unmirrored) form is itself right.
func init() {
	register(&Rule{
		Name:  "MIRROR-ROTATIONS",
		IR:    "ast",
		Props: []string{"C07"},
		Floor: 7, // 2 rotation pairs + 5 mirrored if/else arms
		Doc: "mirrored code of the AVL tree is an exact mirror image: paired rotation functions, and the two arms of every if/else on " +
			"`node == other.left/right`, are structurally equal after swapping left/right, negating balance constants, flipping ordered " +
			"balance comparisons and swapping paired rotation calls",
		Run: runMirrorRotations,
	})
}

// gMirror compares side A with the mirror image of side B.
type gMirror struct {
	info    *types.Info
	sh      *gTreeShape
	pos     map[*types.Var]bool         // position (balance) fields
	partner map[*types.Func]*types.Func // rotation -> mirror partner
	bind    map[types.Object]types.Object
	unknown string // first construct the comparer does not know
}

func (m *gMirror) fieldOf(e ast.Expr) *types.Var {
	se, ok := ast.Unparen(e).(*ast.SelectorExpr)
	if !ok {
		return nil
	}
	sel := m.info.Selections[se]
	if sel == nil || sel.Kind() != types.FieldVal {
		return nil
	}
	v, _ := sel.Obj().(*types.Var)
	return v
}

// balanceValued: a selector of a position field, or a local of a position field's type.
func (m *gMirror) balanceValued(e ast.Expr) bool {
	e = ast.Unparen(e)
	if f := m.fieldOf(e); f != nil {
		return m.pos[f]
	}
	if id, ok := e.(*ast.Ident); ok {
		if v, ok := m.info.ObjectOf(id).(*types.Var); ok && !v.IsField() && v.Pkg() != nil && v.Parent() != v.Pkg().Scope() {
			for f := range m.pos {
				if types.Identical(v.Type(), f.Type()) {
					return true
				}
			}
		}
	}
	return false
}

func (m *gMirror) constInt(e ast.Expr) (int64, bool) {
	tv, ok := m.info.Types[ast.Unparen(e)]
	if !ok || tv.Value == nil || tv.Value.Kind() != constant.Int {
		return 0, false
	}
	return constant.Int64Val(tv.Value)
}

func gFlipOp(op token.Token) token.Token {
	switch op {
	case token.LSS:
		return token.GTR
	case token.GTR:
		return token.LSS
	case token.LEQ:
		return token.GEQ
	case token.GEQ:
		return token.LEQ
	}
	return op
}

// balanceOperandEq: a equals the negation of b when both are integer constants; otherwise
// structural equality (a balance value copied from a balance value needs no negation),
// provided no integer literal hides inside.
func (m *gMirror) balanceOperandEq(a, b ast.Expr) bool {
	ka, oka := m.constInt(a)
	kb, okb := m.constInt(b)
	if oka || okb {
		return oka && okb && ka == -kb
	}
	hasLit := false
	for _, e := range []ast.Expr{a, b} {
		ast.Inspect(e, func(n ast.Node) bool {
			if bl, ok := n.(*ast.BasicLit); ok && bl.Kind == token.INT {
				hasLit = true
			}
			return true
		})
	}
	if hasLit {
		if m.unknown == "" {
			m.unknown = "arithmetic on a balance value: " + types.ExprString(a)
		}
		return false
	}
	return m.expr(a, b)
}

func (m *gMirror) exprs(a, b []ast.Expr) bool {
	if len(a) != len(b) {
		return false
	}
	for i := range a {
		if !m.expr(a[i], b[i]) {
			return false
		}
	}
	return true
}

func (m *gMirror) expr(a, b ast.Expr) bool {
	a, b = ast.Unparen(a), ast.Unparen(b)
	if a == nil || b == nil {
		return a == nil && b == nil
	}
	switch x := a.(type) {
	case *ast.Ident:
		y, ok := b.(*ast.Ident)
		if !ok {
			return false
		}
		ox, oy := m.info.ObjectOf(x), m.info.ObjectOf(y)
		if ox == nil || oy == nil {
			return ox == oy && x.Name == y.Name
		}
		if fx, ok := ox.(*types.Func); ok {
			if p := m.partner[fx]; p != nil {
				return oy == types.Object(p)
			}
		}
		if bound, ok := m.bind[ox]; ok {
			return bound == oy
		}
		// an object declared outside both sides (package level, universe, outer local)
		for _, v := range m.bind {
			if v == oy {
				return false
			}
		}
		return ox == oy
	case *ast.SelectorExpr:
		y, ok := b.(*ast.SelectorExpr)
		if !ok {
			return false
		}
		fx, fy := m.fieldOf(x), m.fieldOf(y)
		if fx != nil || fy != nil {
			if fx == nil || fy == nil {
				return false
			}
			want := fx
			switch fx {
			case m.sh.left:
				want = m.sh.right
			case m.sh.right:
				want = m.sh.left
			}
			return fy == want && m.expr(x.X, y.X)
		}
		// method value / qualified identifier
		ox, oy := m.info.ObjectOf(x.Sel), m.info.ObjectOf(y.Sel)
		if fx, ok := ox.(*types.Func); ok {
			if p := m.partner[fx]; p != nil {
				return oy == types.Object(p) && m.exprOrPkg(x.X, y.X)
			}
		}
		return ox == oy && m.exprOrPkg(x.X, y.X)
	case *ast.CallExpr:
		y, ok := b.(*ast.CallExpr)
		return ok && m.expr(x.Fun, y.Fun) && m.exprs(x.Args, y.Args)
	case *ast.UnaryExpr:
		y, ok := b.(*ast.UnaryExpr)
		return ok && x.Op == y.Op && m.expr(x.X, y.X)
	case *ast.StarExpr:
		y, ok := b.(*ast.StarExpr)
		return ok && m.expr(x.X, y.X)
	case *ast.IndexExpr:
		y, ok := b.(*ast.IndexExpr)
		return ok && m.expr(x.X, y.X) && m.expr(x.Index, y.Index)
	case *ast.BasicLit:
		y, ok := b.(*ast.BasicLit)
		return ok && x.Kind == y.Kind && x.Value == y.Value
	case *ast.BinaryExpr:
		y, ok := b.(*ast.BinaryExpr)
		if !ok {
			return false
		}
		// comparisons may be written either way round: a < k is k > a
		type form struct {
			l, r ast.Expr
			op   token.Token
		}
		forms := []form{{y.X, y.Y, y.Op}}
		switch y.Op {
		case token.LSS, token.GTR, token.LEQ, token.GEQ, token.EQL, token.NEQ:
			forms = append(forms, form{y.Y, y.X, gFlipOp(y.Op)})
		}
		balance := m.balanceValued(x.X) || m.balanceValued(x.Y) || m.balanceValued(y.X) || m.balanceValued(y.Y)
		if balance {
			switch x.Op {
			case token.LSS, token.GTR, token.LEQ, token.GEQ, token.EQL, token.NEQ:
			default:
				if m.unknown == "" {
					m.unknown = "arithmetic on a balance value: " + types.ExprString(x)
				}
				return false
			}
		}
		for _, f := range forms {
			saved := m.unknown
			ok := false
			if balance {
				ok = f.op == gFlipOp(x.Op) && m.balanceOperandEq(x.X, f.l) && m.balanceOperandEq(x.Y, f.r)
			} else {
				ok = f.op == x.Op && m.expr(x.X, f.l) && m.expr(x.Y, f.r)
			}
			if ok {
				m.unknown = saved
				return true
			}
		}
		return false
	}
	if m.unknown == "" {
		m.unknown = fmt.Sprintf("expression form %T", a)
	}
	return false
}

func (m *gMirror) exprOrPkg(a, b ast.Expr) bool {
	if ia, ok := ast.Unparen(a).(*ast.Ident); ok {
		if _, isPkg := m.info.ObjectOf(ia).(*types.PkgName); isPkg {
			ib, ok := ast.Unparen(b).(*ast.Ident)
			return ok && m.info.ObjectOf(ia) == m.info.ObjectOf(ib)
		}
	}
	return m.expr(a, b)
}

func (m *gMirror) define(a, b ast.Expr) bool {
	ia, oka := ast.Unparen(a).(*ast.Ident)
	ib, okb := ast.Unparen(b).(*ast.Ident)
	if !oka || !okb {
		return false
	}
	da, db := m.info.Defs[ia], m.info.Defs[ib]
	if da == nil || db == nil {
		return da == nil && db == nil && m.expr(a, b) // re-assignment inside :=
	}
	if !types.Identical(da.Type(), db.Type()) {
		return false
	}
	m.bind[da] = db
	return true
}

// gMirrorDiff is the first pair of statements that differ.
type gMirrorDiff struct{ a, b ast.Node }

func (m *gMirror) stmts(a, b []ast.Stmt) *gMirrorDiff {
	for i := 0; i < len(a) || i < len(b); i++ {
		if i >= len(a) {
			return &gMirrorDiff{nil, b[i]}
		}
		if i >= len(b) {
			return &gMirrorDiff{a[i], nil}
		}
		if d := m.stmt(a[i], b[i]); d != nil {
			return d
		}
	}
	return nil
}

func (m *gMirror) stmt(a, b ast.Stmt) *gMirrorDiff {
	diff := &gMirrorDiff{a, b}
	if a == nil || b == nil {
		if a == nil && b == nil {
			return nil
		}
		return diff
	}
	switch x := a.(type) {
	case *ast.AssignStmt:
		y, ok := b.(*ast.AssignStmt)
		if !ok || x.Tok != y.Tok || len(x.Lhs) != len(y.Lhs) || len(x.Rhs) != len(y.Rhs) {
			return diff
		}
		for i := range x.Rhs {
			if len(x.Lhs) == len(x.Rhs) && x.Tok == token.ASSIGN && m.balanceValued(x.Lhs[i]) {
				if !m.balanceOperandEq(x.Rhs[i], y.Rhs[i]) {
					return diff
				}
				continue
			}
			if len(x.Lhs) == len(x.Rhs) && x.Tok == token.DEFINE && m.balanceValuedDef(x.Lhs[i]) {
				if !m.balanceOperandEq(x.Rhs[i], y.Rhs[i]) {
					return diff
				}
				continue
			}
			if !m.expr(x.Rhs[i], y.Rhs[i]) {
				return diff
			}
		}
		for i := range x.Lhs {
			if x.Tok == token.DEFINE {
				if !m.define(x.Lhs[i], y.Lhs[i]) {
					return diff
				}
			} else if !m.expr(x.Lhs[i], y.Lhs[i]) {
				return diff
			}
		}
		if x.Tok != token.ASSIGN && x.Tok != token.DEFINE {
			for _, l := range x.Lhs {
				if m.balanceValued(l) {
					if m.unknown == "" {
						m.unknown = "compound assignment to a balance value"
					}
					return diff
				}
			}
		}
		return nil
	case *ast.IncDecStmt:
		y, ok := b.(*ast.IncDecStmt)
		if !ok || !m.expr(x.X, y.X) {
			return diff
		}
		want := x.Tok
		if m.balanceValued(x.X) {
			if want == token.INC {
				want = token.DEC
			} else {
				want = token.INC
			}
		}
		if y.Tok != want {
			return diff
		}
		return nil
	case *ast.ExprStmt:
		y, ok := b.(*ast.ExprStmt)
		if !ok || !m.expr(x.X, y.X) {
			return diff
		}
		return nil
	case *ast.ReturnStmt:
		y, ok := b.(*ast.ReturnStmt)
		if !ok || !m.exprs(x.Results, y.Results) {
			return diff
		}
		return nil
	case *ast.BranchStmt:
		y, ok := b.(*ast.BranchStmt)
		if !ok || x.Tok != y.Tok || (x.Label == nil) != (y.Label == nil) || (x.Label != nil && x.Label.Name != y.Label.Name) {
			return diff
		}
		return nil
	case *ast.BlockStmt:
		y, ok := b.(*ast.BlockStmt)
		if !ok {
			return diff
		}
		return m.stmts(x.List, y.List)
	case *ast.IfStmt:
		y, ok := b.(*ast.IfStmt)
		if !ok || (x.Init == nil) != (y.Init == nil) || (x.Else == nil) != (y.Else == nil) {
			return diff
		}
		if x.Init != nil {
			if d := m.stmt(x.Init, y.Init); d != nil {
				return d
			}
		}
		if !m.expr(x.Cond, y.Cond) {
			return &gMirrorDiff{x.Cond, y.Cond}
		}
		if d := m.stmts(x.Body.List, y.Body.List); d != nil {
			return d
		}
		if x.Else != nil {
			return m.stmt(x.Else, y.Else)
		}
		return nil
	case *ast.ForStmt:
		y, ok := b.(*ast.ForStmt)
		if !ok || (x.Init == nil) != (y.Init == nil) || (x.Cond == nil) != (y.Cond == nil) || (x.Post == nil) != (y.Post == nil) {
			return diff
		}
		if x.Init != nil {
			if d := m.stmt(x.Init, y.Init); d != nil {
				return d
			}
		}
		if x.Cond != nil && !m.expr(x.Cond, y.Cond) {
			return &gMirrorDiff{x.Cond, y.Cond}
		}
		if x.Post != nil {
			if d := m.stmt(x.Post, y.Post); d != nil {
				return d
			}
		}
		return m.stmts(x.Body.List, y.Body.List)
	case *ast.DeclStmt:
		y, ok := b.(*ast.DeclStmt)
		if !ok {
			return diff
		}
		gx, gy := x.Decl.(*ast.GenDecl), y.Decl.(*ast.GenDecl)
		if gx.Tok != token.VAR || gy.Tok != token.VAR || len(gx.Specs) != len(gy.Specs) {
			return diff
		}
		for i := range gx.Specs {
			sx, sy := gx.Specs[i].(*ast.ValueSpec), gy.Specs[i].(*ast.ValueSpec)
			if len(sx.Names) != len(sy.Names) || len(sx.Values) != len(sy.Values) || !m.exprs(sx.Values, sy.Values) {
				return diff
			}
			for j := range sx.Names {
				if !m.define(sx.Names[j], sy.Names[j]) {
					return diff
				}
			}
		}
		return nil
	case *ast.EmptyStmt:
		if _, ok := b.(*ast.EmptyStmt); ok {
			return nil
		}
		return diff
	}
	if m.unknown == "" {
		m.unknown = fmt.Sprintf("statement form %T", a)
	}
	return diff
}

// balanceValuedDef: x in `x := e` is a new local of a position field's type.
func (m *gMirror) balanceValuedDef(e ast.Expr) bool {
	id, ok := ast.Unparen(e).(*ast.Ident)
	if !ok {
		return false
	}
	d := m.info.Defs[id]
	if d == nil {
		return m.balanceValued(e)
	}
	for f := range m.pos {
		if types.Identical(d.Type(), f.Type()) {
			return true
		}
	}
	return false
}

func runMirrorRotations(c *Ctx) []Obligation {
	p := c.Pkg("search")
	if p == nil {
		return nil
	}
	info := p.TypesInfo
	sh := gFindTreeShape(p.Types)
	if sh == nil {
		return nil
	}
	rot := c.gRotationFuncs(p, sh)
	nodeStruct := sh.node.Underlying().(*types.Struct)
	fieldVar := func(e ast.Expr) *types.Var {
		se, ok := ast.Unparen(e).(*ast.SelectorExpr)
		if !ok {
			return nil
		}
		sel := info.Selections[se]
		if sel == nil || sel.Kind() != types.FieldVal {
			return nil
		}
		v, _ := sel.Obj().(*types.Var)
		return v
	}
	isNodeField := func(v *types.Var) bool {
		for i := 0; i < nodeStruct.NumFields(); i++ {
			if nodeStruct.Field(i) == v {
				return true
			}
		}
		return false
	}
	// position fields and link signatures of the rotation functions
	pos := map[*types.Var]bool{}
	type rfun struct {
		fn  *types.Func
		fd  *ast.FuncDecl
		sig string
	}
	var rfs []rfun
	for _, fd := range c.FuncDecls(p) {
		fn, _ := info.Defs[fd.Name].(*types.Func)
		if fn == nil || !rot[fn] {
			continue
		}
		var sig strings.Builder
		ast.Inspect(fd.Body, func(n ast.Node) bool {
			switch s := n.(type) {
			case *ast.SelectorExpr:
				switch fieldVar(s) {
				case sh.left:
					sig.WriteByte('L')
				case sh.right:
					sig.WriteByte('R')
				}
			case *ast.AssignStmt:
				for _, l := range s.Lhs {
					if v := fieldVar(l); v != nil && isNodeField(v) && v != sh.parent && v != sh.left && v != sh.right {
						if b, ok := v.Type().Underlying().(*types.Basic); ok && b.Info()&types.IsInteger != 0 {
							pos[v] = true
						}
					}
				}
			}
			return true
		})
		rfs = append(rfs, rfun{fn, fd, sig.String()})
	}
	complement := func(s string) string {
		return strings.Map(func(r rune) rune {
			if r == 'L' {
				return 'R'
			}
			return 'L'
		}, s)
	}
	partner := map[*types.Func]*types.Func{}
	for i, a := range rfs {
		var cands []int
		for j, b := range rfs {
			if i != j && b.sig == complement(a.sig) && types.Identical(a.fn.Type(), b.fn.Type()) {
				cands = append(cands, j)
			}
		}
		if len(cands) == 1 {
			partner[a.fn] = rfs[cands[0]].fn
		}
	}
	var out []Obligation
	report := func(ob Obligation, m *gMirror, d *gMirrorDiff, whatA, whatB string) Obligation {
		side := func(n ast.Node) string {
			if n == nil {
				return "<nothing: the other side has one more statement>"
			}
			return c.Position(n.Pos()) + ": " + nodeText(c.Fset, n)
		}
		switch {
		case d == nil:
			ob.Status = OK
			ob.Detail = fmt.Sprintf("%s is the mirror image of %s", whatA, whatB)
		case m.unknown != "":
			ob.Status = Undecided
			ob.Detail = fmt.Sprintf("%s against the mirror of %s: cannot compare (%s) at %s", whatA, whatB, m.unknown, side(d.a))
		default:
			ob.Status = Violation
			ob.Detail = fmt.Sprintf("%s is not the mirror image of %s (left<->right, balance constants negated, ordered balance comparisons flipped, paired rotations swapped): first difference %s  versus  %s", whatA, whatB, side(d.a), side(d.b))
			ob.Path = []string{whatA + ": " + side(d.a), whatB + ": " + side(d.b)}
		}
		return ob
	}
	// ---- pairs
	done := map[*types.Func]bool{}
	for _, a := range rfs {
		if done[a.fn] {
			continue
		}
		name := c.FuncName(p, a.fd)
		ob := Obligation{Key: gNthKey(name, 1), Pos: c.Position(a.fd.Pos())}
		pf := partner[a.fn]
		if pf == nil || partner[pf] != a.fn {
			ob.Status = Violation
			ob.Detail = fmt.Sprintf("rotation function %s (child-link sequence %s) has no mirror partner: no other rotation function touches the complementary links %s in the same order", name, a.sig, complement(a.sig))
			out = append(out, ob)
			done[a.fn] = true
			continue
		}
		done[a.fn], done[pf] = true, true
		bd, _ := c.Decl(pf)
		m := &gMirror{info: info, sh: sh, pos: pos, partner: partner, bind: map[types.Object]types.Object{}}
		// parameters by position
		var pa, pb []*ast.Ident
		for _, f := range a.fd.Type.Params.List {
			pa = append(pa, f.Names...)
		}
		for _, f := range bd.Type.Params.List {
			pb = append(pb, f.Names...)
		}
		if len(pa) != len(pb) {
			ob.Status, ob.Detail = Undecided, "paired rotation functions name different numbers of parameters"
			out = append(out, ob)
			continue
		}
		for i := range pa {
			m.bind[info.Defs[pa[i]]] = info.Defs[pb[i]]
		}
		d := m.stmts(a.fd.Body.List, bd.Body.List)
		out = append(out, report(ob, m, d, name, c.FuncName(p, bd)))
	}
	// ---- arms
	for _, fd := range c.FuncDecls(p) {
		fn, _ := info.Defs[fd.Name].(*types.Func)
		if fn == nil || rot[fn] {
			continue
		}
		relevant := false
		ast.Inspect(fd.Body, func(n ast.Node) bool {
			switch s := n.(type) {
			case *ast.CallExpr:
				if g := calleeFunc(info, s); g != nil && rot[g.Origin()] {
					relevant = true
				}
			case *ast.AssignStmt:
				for _, l := range s.Lhs {
					if v := fieldVar(l); v == sh.left || v == sh.right {
						if v != nil {
							relevant = true
						}
					}
				}
			}
			return true
		})
		if !relevant {
			continue
		}
		name := c.FuncName(p, fd)
		var ifs []*ast.IfStmt
		elseIf := map[*ast.IfStmt]bool{} // the if of an `else if`: its else is a third case, not the other side
		inspectShallow(fd.Body, func(n ast.Node) bool {
			if is, ok := n.(*ast.IfStmt); ok {
				if e, ok := is.Else.(*ast.IfStmt); ok {
					elseIf[e] = true
				}
			}
			return true
		})
		inspectShallow(fd.Body, func(n ast.Node) bool {
			is, ok := n.(*ast.IfStmt)
			if !ok || is.Init != nil || elseIf[is] {
				return true
			}
			if _, isBlock := is.Else.(*ast.BlockStmt); !isBlock {
				return true
			}
			be, ok := ast.Unparen(is.Cond).(*ast.BinaryExpr)
			if !ok || be.Op != token.EQL {
				return true
			}
			lx, ly := fieldVar(be.X), fieldVar(be.Y)
			isLink := func(v *types.Var) bool { return v != nil && (v == sh.left || v == sh.right) }
			if isLink(lx) != isLink(ly) { // exactly one side is a child link
				ifs = append(ifs, is)
			}
			return true
		})
		sort.Slice(ifs, func(i, j int) bool { return ifs[i].Pos() < ifs[j].Pos() })
		for i, is := range ifs {
			ob := Obligation{Key: gNthKey(name, i+1), Pos: c.Position(is.Pos())}
			m := &gMirror{info: info, sh: sh, pos: pos, partner: partner, bind: map[types.Object]types.Object{}}
			d := m.stmts(is.Body.List, is.Else.(*ast.BlockStmt).List)
			what := fmt.Sprintf("the arm of `if %s` at %s", types.ExprString(is.Cond), c.Position(is.Pos()))
			out = append(out, report(ob, m, d, what, "its else arm"))
		}
	}
	return out
}
