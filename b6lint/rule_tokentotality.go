package main

import (
	"fmt"
	"go/ast"
	"go/constant"
	"go/token"
	"go/types"
	"strings"

	"golang.org/x/tools/go/cfg"
)

// TOKEN-TOTALITY (C04): the spatial pre-filter is sound only if both halves of the token scheme
// are total:
//
//	index  (search.TokensForCovering): for every covering cell its own token, plus a marker
//	       token for every proper ancestor (through the ancestor emitter it calls);
//	query  (search.RewriteSpatialQuery): for every covering cell the marker token (finds
//	       features indexed below the cell), plus the own-token of the cell and of every
//	       ancestor up to and including the face cell (finds features indexed at or above it).
//
// Token constructors are found by shape, not by name: functions of package search taking one
// s2.CellID and returning `<constant prefix> + cell.ToToken()` (decomposed like TOKEN-FORMAT).
// Which constructor plays which role is read from the code and cross-checked (instance
// RewriteSpatialQuery#4): index-own == query-own, index-ancestor == query-marker, and the two
// prefixes differ and neither is a prefix of the other.
//
// All obligations are must-pass-through searches on go/cfg over loop bodies; a path that
// reaches the next iteration, leaves the loop, or leaves the function first is the witness.
//
//	TokensForCovering#1   in each range over the s2.CellUnion parameter that emits tokens, every
//	                      path through the body executes `acc = append(acc, ctor(cell))` for the
//	                      range variable before the next iteration (acc = the []string parameter)
//	TokensForCovering#2   every path to a return passes `return F(covering, acc)` or
//	                      `acc = F(covering, acc)` with F a module function
//	                      (s2.CellUnion, []string) []string — the ancestor emitter
//	F#1 (seed)            range over the covering: every path stores the cell in a frontier map
//	                      `cells[cell] = ...`
//	F#2 (propagate)       range over the frontier map (key id): every path stores
//	                      `parents[id.Parent(id.Level()-1)] = ...` or takes the level-0 edge of a
//	                      test of id.Level() against 0 (==, !=, >, <1, >=1)
//	F#3 (emit)            range over the parents map (key id): every path executes
//	                      `acc = append(acc, ctor(id))`
//	F#4 (advance)         the enclosing `for len(cells) > 0` loop: every path through its body
//	                      passes the emit loop and then `cells = parents` before the next
//	                      iteration, and the body never leaves the loop itself
//	RewriteSpatialQuery#1 range over the covering (value v): every path through the body appends
//	                      `All{Token: ctor(v)}` to the result before v is re-assigned
//	RewriteSpatialQuery#2 the walk: a condition-less `for { }` inside that loop stepping
//	                      `v = v.Parent(v.Level()-1)`: (a) from the body entry every path records
//	                      `ids[v] = ...` before v is assigned and before leaving the loop, (b) from
//	                      every step every path records v again before leaving the loop (so the
//	                      face cell is recorded), (c) the loop is left only over the level-0 edge
//	                      of a test of v.Level(), (d) v is assigned in the loop only by that step
//	RewriteSpatialQuery#3 range over the record map (key id), on every path to a return: every
//	                      path through its body appends `All{Token: ctor(id)}`
//	RewriteSpatialQuery#4 role agreement of the constructors (above)
//
// Counting loops. Either ancestor enumeration may instead be written as a loop over the levels,
//
//	for lv := INIT; COND; lv-- { ... cell.Parent(lv) ... }      (lv -= 1, lv = lv - 1 likewise)
//	for lv := K; lv <= cell.Level(); lv++ { ... }               (ascending)
//
// with cell the range variable of the loop over the covering. The levels visited are read from
// the header: descending from INIT = cell.Level() or cell.Level()-k down to the bound of COND
// (`lv >= 0`, `lv > -1` -> 0; `lv > 0`, `lv >= 1`, `lv != 0` -> 1; operands either way round);
// ascending from the constant K up to `<= cell.Level()`, `< cell.Level()`, `<= cell.Level()-k`.
// Totality on the query side (RewriteSpatialQuery#2): every level from the cell's own level down
// to 0 is recorded as `ids[cell.Parent(lv)] = ...` (or through `p := cell.Parent(lv)`); the own
// level may instead be recorded by `ids[cell] = ...` on every path through the loop over the
// covering, then INIT may be cell.Level()-1. On the index side (F#1 every covering cell reaches
// the loop, F#2 levels, F#3 emission, F#4 loop discipline) the proper ancestors
// cell.Level()-1 .. 0 must each be emitted with `acc = append(acc, ctor(cell.Parent(lv)))`,
// optionally de-duplicated by `if _, ok := seen[p]; !ok { seen[p] = ...; emit }`.
// A violation names the levels never visited ("level 0 — the face cell — is never looked up:
// ... condition `level > 0`"). In both places: neither cell nor lv is assigned in the body, every
// path through the body visits the level, and the body does not leave the loop early.
//
// Accepted idioms are exactly these ancestor enumerations (level-by-level frontier or counting
// loop on the index side; walk to the root or counting loop on the query side); a counting loop
// whose header cannot be read (non-constant bound, step other than one, bound below 0 or start
// above the cell's level) and any other enumeration are reported undecided.
// Not covered: s2 semantics (that Parent(Level()-1) is the immediate parent, that coverings of
// intersecting regions share a cell), de-duplication of tokens, callers of TokensForCovering.
func init() {
	register(&Rule{
		Name:  "TOKEN-TOTALITY",
		IR:    "cfg",
		Props: []string{"C04"},
		Floor: 10, // TokensForCovering 2, cellIDAncestorTokens 4, RewriteSpatialQuery 4
		Doc: "index side: every covering cell gets its own token on every path of TokensForCovering's loop and the ancestor emitter reaches " +
			"every proper ancestor (seed, propagate to the immediate parent unless level 0, emit, advance); query side: every covering cell " +
			"contributes its marker token, the walk to the root records every cell including the face cell before leaving, every recorded " +
			"cell yields its own token; both sides use the same two token constructors in matching roles",
		Run: runTokenTotality,
	})
}

const gS2Path = "github.com/golang/geo/s2"

type gTT struct {
	c     *Ctx
	info  *types.Info
	ctors map[*types.Func]string // token constructor -> constant prefix
	all   *types.Named           // search.All
}

// gCellTokenCtors finds func(cell s2.CellID) string { return <const> + cell.ToToken() } in p.
func (c *Ctx) gCellTokenCtors(rel string) map[*types.Func]string {
	out := map[*types.Func]string{}
	p := c.Pkg(rel)
	if p == nil {
		return out
	}
	info := p.TypesInfo
	for _, fd := range c.FuncDecls(p) {
		if fd.Recv != nil || len(fd.Body.List) != 1 {
			continue
		}
		fn, _ := info.Defs[fd.Name].(*types.Func)
		if fn == nil {
			continue
		}
		sig := fn.Type().(*types.Signature)
		if sig.Params().Len() != 1 || sig.Results().Len() != 1 || !isNamed(sig.Params().At(0).Type(), gS2Path, "CellID") {
			continue
		}
		if b, ok := sig.Results().At(0).Type().Underlying().(*types.Basic); !ok || b.Kind() != types.String {
			continue
		}
		rs, ok := fd.Body.List[0].(*ast.ReturnStmt)
		if !ok || len(rs.Results) != 1 {
			continue
		}
		param := sig.Params().At(0)
		ps, why := gStringPieces(info, rs.Results[0], func(e ast.Expr) string {
			call, ok := ast.Unparen(e).(*ast.CallExpr)
			if !ok || len(call.Args) != 0 {
				return ""
			}
			se, ok := ast.Unparen(call.Fun).(*ast.SelectorExpr)
			if !ok {
				return ""
			}
			id, ok := ast.Unparen(se.X).(*ast.Ident)
			if !ok || info.ObjectOf(id) != param {
				return ""
			}
			if f := calleeFunc(info, call); f != nil && f.Name() == "ToToken" && f.Pkg() != nil && f.Pkg().Path() == gS2Path {
				return "cell-token"
			}
			return ""
		})
		if why == "" && len(ps) == 2 && ps[0].Const && !ps[1].Const && ps[1].Text == "cell-token" {
			out[fn] = ps[0].Text
		}
	}
	return out
}

func (t *gTT) isCellID(e ast.Expr) bool { return isNamed(t.info.TypeOf(e), gS2Path, "CellID") }

func (t *gTT) identObj(e ast.Expr) types.Object {
	if id, ok := ast.Unparen(e).(*ast.Ident); ok && id.Name != "_" {
		return t.info.ObjectOf(id)
	}
	return nil
}

// levelCall matches v.Level() and returns v.
func (t *gTT) levelCall(e ast.Expr) types.Object {
	call, ok := ast.Unparen(e).(*ast.CallExpr)
	if !ok || len(call.Args) != 0 {
		return nil
	}
	se, ok := ast.Unparen(call.Fun).(*ast.SelectorExpr)
	if !ok || !t.isCellID(se.X) {
		return nil
	}
	if f := calleeFunc(t.info, call); f == nil || f.Name() != "Level" || f.Pkg() == nil || f.Pkg().Path() != gS2Path {
		return nil
	}
	return t.identObj(se.X)
}

func (t *gTT) constInt(e ast.Expr) (int64, bool) {
	tv, ok := t.info.Types[ast.Unparen(e)]
	if !ok || tv.Value == nil {
		return 0, false
	}
	return constant.Int64Val(constant.ToInt(tv.Value))
}

// parentOf matches v.Parent(v.Level()-1) and returns v.
func (t *gTT) parentOf(e ast.Expr) types.Object {
	call, ok := ast.Unparen(e).(*ast.CallExpr)
	if !ok || len(call.Args) != 1 {
		return nil
	}
	se, ok := ast.Unparen(call.Fun).(*ast.SelectorExpr)
	if !ok || !t.isCellID(se.X) {
		return nil
	}
	if f := calleeFunc(t.info, call); f == nil || f.Name() != "Parent" || f.Pkg() == nil || f.Pkg().Path() != gS2Path {
		return nil
	}
	v := t.identObj(se.X)
	be, ok := ast.Unparen(call.Args[0]).(*ast.BinaryExpr)
	if v == nil || !ok || be.Op != token.SUB || t.levelCall(be.X) != v {
		return nil
	}
	if n, ok := t.constInt(be.Y); !ok || n != 1 {
		return nil
	}
	return v
}

// levelZeroEdge: the block ends in a test of v.Level() against a constant; returns the successor
// index on which the level is 0.
func (t *gTT) levelZeroEdge(b *cfg.Block, v types.Object) (int, bool) {
	cond := gCondOf(b)
	e, ok := cond.(ast.Expr)
	if !ok {
		return 0, false
	}
	be, ok := ast.Unparen(e).(*ast.BinaryExpr)
	if !ok {
		return 0, false
	}
	op, l, r := be.Op, be.X, be.Y
	if t.levelCall(l) == nil && t.levelCall(r) != nil {
		l, r = r, l
		switch op {
		case token.LSS:
			op = token.GTR
		case token.GTR:
			op = token.LSS
		case token.LEQ:
			op = token.GEQ
		case token.GEQ:
			op = token.LEQ
		}
	}
	if t.levelCall(l) != v || v == nil {
		return 0, false
	}
	k, ok := t.constInt(r)
	if !ok {
		return 0, false
	}
	switch {
	case op == token.EQL && k == 0, op == token.LEQ && k == 0, op == token.LSS && k == 1:
		return 0, true // true edge: level is 0
	case op == token.NEQ && k == 0, op == token.GTR && k == 0, op == token.GEQ && k == 1:
		return 1, true // false edge: level is 0
	}
	return 0, false
}

// mapStore matches M[key] = ... (M a local map keyed by s2.CellID) and returns M and the key.
func (t *gTT) mapStore(n ast.Node) (types.Object, ast.Expr) {
	as, ok := n.(*ast.AssignStmt)
	if !ok || as.Tok != token.ASSIGN || len(as.Lhs) != 1 {
		return nil, nil
	}
	ix, ok := ast.Unparen(as.Lhs[0]).(*ast.IndexExpr)
	if !ok {
		return nil, nil
	}
	mt, ok := t.info.TypeOf(ix.X).Underlying().(*types.Map)
	if !ok || !isNamed(mt.Key(), gS2Path, "CellID") {
		return nil, nil
	}
	return t.identObj(ix.X), ix.Index
}

// emission matches acc = append(acc, ..., ctor(v) | All{Token: ctor(v)}, ...) and returns the
// accumulator, the constructor and whether the token was wrapped in a search.All literal.
func (t *gTT) emission(n ast.Node, v types.Object) (acc types.Object, ctor *types.Func, wrapped bool) {
	return t.emissionOf(n, func(e ast.Expr) bool { return v != nil && t.identObj(e) == v })
}

// emissionOf is emission with the constructor's argument accepted by match.
func (t *gTT) emissionOf(n ast.Node, match func(ast.Expr) bool) (acc types.Object, ctor *types.Func, wrapped bool) {
	as, ok := n.(*ast.AssignStmt)
	if !ok || len(as.Lhs) != 1 || len(as.Rhs) != 1 {
		return nil, nil, false
	}
	call, ok := ast.Unparen(as.Rhs[0]).(*ast.CallExpr)
	if !ok || !isBuiltin(t.info, call, "append") || len(call.Args) < 2 {
		return nil, nil, false
	}
	acc = t.identObj(as.Lhs[0])
	if acc == nil || t.identObj(call.Args[0]) != acc {
		return nil, nil, false
	}
	for _, a := range call.Args[1:] {
		a = ast.Unparen(a)
		w := false
		if cl, ok := a.(*ast.CompositeLit); ok {
			if n := namedOf(t.info.TypeOf(cl)); n == nil || n != t.all || len(cl.Elts) != 1 {
				continue
			}
			w = true
			if kv, ok := cl.Elts[0].(*ast.KeyValueExpr); ok {
				a = ast.Unparen(kv.Value)
			} else {
				a = ast.Unparen(cl.Elts[0])
			}
		}
		cc, ok := a.(*ast.CallExpr)
		if !ok || len(cc.Args) != 1 {
			continue
		}
		f := calleeFunc(t.info, cc)
		if f == nil {
			continue
		}
		if _, isCtor := t.ctors[f.Origin()]; !isCtor {
			continue
		}
		if match(cc.Args[0]) {
			return acc, f.Origin(), w
		}
	}
	return nil, nil, false
}

// rangeVar returns the variable carrying the element (slices: value; maps: key).
func (t *gTT) rangeVar(rs *ast.RangeStmt) types.Object {
	if _, isMap := t.info.TypeOf(rs.X).Underlying().(*types.Map); isMap {
		if rs.Key != nil {
			return t.identObj(rs.Key)
		}
		return nil
	}
	if rs.Value != nil {
		return t.identObj(rs.Value)
	}
	return nil
}

// throughBody runs a must-pass search from the entry of a loop body: discharged by stop nodes /
// stop edges; the next iteration, the end of the loop and a function exit are witnesses.
func (t *gTT) throughBody(g *cfg.CFG, loop ast.Stmt, stopNode func(ast.Node) bool, stopEdge func(*cfg.Block, int) bool, kill func(ast.Node) string, what string) []string {
	body, iter, done := gLoopBlocks(g, loop)
	if body == nil {
		return []string{"loop body not found in the control-flow graph"}
	}
	s := &gSearch{c: t.c, info: t.info, stopNode: stopNode, stopEdge: stopEdge, killNode: kill, exitBad: true,
		badBlock: func(b *cfg.Block) string {
			if iter[b] {
				return fmt.Sprintf("starts the next iteration of the loop at %s without %s", t.c.Position(loop.Pos()), what)
			}
			if b == done {
				return fmt.Sprintf("leaves the loop at %s without %s", t.c.Position(loop.Pos()), what)
			}
			return ""
		}}
	return s.forward(body, 0)
}

func (t *gTT) loops(root ast.Node) []ast.Stmt {
	var out []ast.Stmt
	inspectShallow(root, func(n ast.Node) bool {
		switch n.(type) {
		case *ast.ForStmt, *ast.RangeStmt:
			if n != root {
				out = append(out, n.(ast.Stmt))
			}
		}
		return true
	})
	return out
}

func (t *gTT) ctorName(f *types.Func) string {
	if f == nil {
		return "<none>"
	}
	return fmt.Sprintf("%s (%q tokens)", f.Name(), t.ctors[f])
}

func runTokenTotality(c *Ctx) []Obligation {
	p := c.Pkg("search")
	if p == nil {
		return nil
	}
	t := &gTT{c: c, info: p.TypesInfo, ctors: c.gCellTokenCtors("search")}
	if tn, ok := p.Types.Scope().Lookup("All").(*types.TypeName); ok {
		t.all, _ = tn.Type().(*types.Named)
	}
	var out []Obligation
	var idxOwn, idxAnc, qMarker, qOwn *types.Func

	// ------------------------------------------------------------------ index side
	if fd, _ := c.LookupFunc("search", "TokensForCovering"); fd != nil && fd.Body != nil {
		var emitter *types.Func
		obs := t.checkTokensForCovering(fd, c.FuncName(p, fd), &idxOwn, &emitter)
		out = append(out, obs...)
		if emitter != nil {
			if ed, ep := c.Decl(emitter); ed != nil && ed.Body != nil && ep == p {
				out = append(out, t.checkFrontier(ed, c.FuncName(p, ed), &idxAnc)...)
			}
		}
	}
	// ------------------------------------------------------------------ query side
	if fd, _ := c.LookupFunc("search", "RewriteSpatialQuery"); fd != nil && fd.Body != nil {
		name := c.FuncName(p, fd)
		out = append(out, t.checkRewrite(fd, name, &qMarker, &qOwn)...)
		ob := Obligation{Key: gNthKey(name, 4), Pos: c.Position(fd.Pos())}
		var bad []string
		if idxOwn == nil || idxAnc == nil || qMarker == nil || qOwn == nil {
			ob.Status = Undecided
			ob.Detail = fmt.Sprintf("token constructor roles could not all be read: index own=%s, index ancestor=%s, query marker=%s, query own=%s",
				t.ctorName(idxOwn), t.ctorName(idxAnc), t.ctorName(qMarker), t.ctorName(qOwn))
		} else {
			if idxOwn != qOwn {
				bad = append(bad, fmt.Sprintf("cells are indexed under their own token by %s but the query looks the cell and its ancestors up with %s", t.ctorName(idxOwn), t.ctorName(qOwn)))
			}
			if idxAnc != qMarker {
				bad = append(bad, fmt.Sprintf("ancestors are indexed by %s but the query marks covering cells with %s", t.ctorName(idxAnc), t.ctorName(qMarker)))
			}
			a, b := t.ctors[idxOwn], t.ctors[idxAnc]
			if idxOwn == idxAnc || strings.HasPrefix(a, b) || strings.HasPrefix(b, a) {
				bad = append(bad, fmt.Sprintf("own-token prefix %q and ancestor-token prefix %q are not distinct", a, b))
			}
			if len(bad) > 0 {
				ob.Status, ob.Detail, ob.Path = Violation, "token scheme roles disagree between index and query: "+bad[0], bad
			} else {
				ob.Status = OK
				ob.Detail = fmt.Sprintf("own token %s and ancestor/marker token %s are used in matching roles on both sides", t.ctorName(idxOwn), t.ctorName(idxAnc))
			}
		}
		out = append(out, ob)
	}
	return out
}

// checkTokensForCovering: instances #1 (own token on every path) and #2 (ancestor emitter on
// every path to return).
func (t *gTT) checkTokensForCovering(fd *ast.FuncDecl, name string, own **types.Func, emitter **types.Func) []Obligation {
	c, info := t.c, t.info
	var covering, acc types.Object
	for _, f := range fd.Type.Params.List {
		for _, n := range f.Names {
			o := info.Defs[n]
			if o == nil {
				continue
			}
			if isNamed(o.Type(), gS2Path, "CellUnion") && covering == nil {
				covering = o
			}
			if s, ok := o.Type().Underlying().(*types.Slice); ok && acc == nil {
				if b, ok := s.Elem().Underlying().(*types.Basic); ok && b.Kind() == types.String {
					acc = o
				}
			}
		}
	}
	ob1 := Obligation{Key: gNthKey(name, 1), Pos: c.Position(fd.Pos())}
	ob2 := Obligation{Key: gNthKey(name, 2), Pos: c.Position(fd.Pos())}
	if covering == nil || acc == nil {
		ob1.Status, ob1.Detail = Undecided, "expected parameters (covering s2.CellUnion, tokens []string)"
		ob2.Status, ob2.Detail = Undecided, ob1.Detail
		return []Obligation{ob1, ob2}
	}
	g := newCFG(info, fd.Body)

	// #1
	var coverLoops []*ast.RangeStmt
	for _, l := range t.loops(fd.Body) {
		if rs, ok := l.(*ast.RangeStmt); ok && t.identObj(rs.X) == covering {
			coverLoops = append(coverLoops, rs)
		}
	}
	emits := func(rs *ast.RangeStmt) *types.Func {
		var ctor *types.Func
		v := t.rangeVar(rs)
		inspectShallow(rs.Body, func(n ast.Node) bool {
			if a, f, wrapped := t.emission(n, v); f != nil && a == acc && !wrapped && ctor == nil {
				ctor = f
			}
			return true
		})
		return ctor
	}
	var subject *ast.RangeStmt
	for _, rs := range coverLoops {
		if emits(rs) != nil && subject == nil {
			subject = rs
		}
	}
	switch {
	case len(coverLoops) == 0:
		ob1.Status, ob1.Detail = Violation, fmt.Sprintf("%s has no range loop over its covering parameter %s: no covering cell gets its own token", name, covering.Name())
	case subject == nil:
		ob1.Pos = c.Position(coverLoops[0].Pos())
		ob1.Status = Violation
		ob1.Detail = fmt.Sprintf("%s: the loop over %s at %s never appends a cell token constructor applied to its range variable to %s", name, covering.Name(), c.Position(coverLoops[0].Pos()), acc.Name())
	default:
		ctor := emits(subject)
		*own = ctor
		v := t.rangeVar(subject)
		ob1.Pos = c.Position(subject.Pos())
		what := fmt.Sprintf("%s = append(%s, %s(%s))", acc.Name(), acc.Name(), ctor.Name(), v.Name())
		w := t.throughBody(g, subject, func(n ast.Node) bool {
			a, f, wrapped := t.emission(n, v)
			return f == ctor && a == acc && !wrapped
		}, nil, func(n ast.Node) string {
			if gAssigns(info, n, v) {
				return v.Name() + " is re-assigned before its token is emitted"
			}
			return ""
		}, what)
		if w != nil {
			ob1.Status = Violation
			ob1.Detail = fmt.Sprintf("%s: a path through the loop over %s at %s does not emit the cell's own token (%s); a feature whose covering contains such a cell is not indexed under it", name, covering.Name(), c.Position(subject.Pos()), what)
			ob1.Path = append([]string{"enters the loop body at " + c.Position(subject.Body.Pos())}, w...)
		} else {
			ob1.Status, ob1.Detail = OK, fmt.Sprintf("every path through the loop over %s executes %s", covering.Name(), what)
		}
	}

	// #2
	isEmitterCall := func(e ast.Expr) *types.Func {
		call, ok := ast.Unparen(e).(*ast.CallExpr)
		if !ok || len(call.Args) != 2 {
			return nil
		}
		f := calleeFunc(info, call)
		if f == nil {
			return nil
		}
		d, _ := c.Decl(f)
		if d == nil || d == fd {
			return nil
		}
		sig := f.Type().(*types.Signature)
		if sig.Params().Len() != 2 || sig.Results().Len() != 1 || !isNamed(sig.Params().At(0).Type(), gS2Path, "CellUnion") ||
			!types.Identical(sig.Params().At(1).Type(), acc.Type()) || !types.Identical(sig.Results().At(0).Type(), acc.Type()) {
			return nil
		}
		if t.identObj(call.Args[0]) != covering || t.identObj(call.Args[1]) != acc {
			return nil
		}
		return f.Origin()
	}
	var found *types.Func
	stop := func(n ast.Node) bool {
		switch s := n.(type) {
		case *ast.ReturnStmt:
			if len(s.Results) == 1 {
				if f := isEmitterCall(s.Results[0]); f != nil {
					found = f
					return true
				}
			}
		case *ast.AssignStmt:
			if len(s.Lhs) == 1 && len(s.Rhs) == 1 && t.identObj(s.Lhs[0]) == acc {
				if f := isEmitterCall(s.Rhs[0]); f != nil {
					found = f
					return true
				}
			}
		}
		return false
	}
	s := &gSearch{c: c, info: info, stopNode: stop, exitBad: true}
	w := s.forward(g.Blocks[0], 0)
	// every return that is not the emitter call itself must return the accumulator
	var badRet string
	inspectShallow(fd.Body, func(n ast.Node) bool {
		if rs, ok := n.(*ast.ReturnStmt); ok && badRet == "" {
			if len(rs.Results) != 1 || (isEmitterCall(rs.Results[0]) == nil && t.identObj(rs.Results[0]) != acc) {
				badRet = c.Position(rs.Pos()) + " " + nodeText(c.Fset, rs)
			}
		}
		return true
	})
	switch {
	case w != nil:
		ob2.Status = Violation
		ob2.Detail = fmt.Sprintf("%s: a path returns without adding ancestor tokens through a function (s2.CellUnion, []string) []string applied to (%s, %s)", name, covering.Name(), acc.Name())
		ob2.Path = w
	case badRet != "":
		ob2.Status, ob2.Detail = Violation, fmt.Sprintf("%s: %s returns something other than the accumulated tokens", name, badRet)
	default:
		*emitter = found
		ob2.Status, ob2.Detail = OK, fmt.Sprintf("every path to a return adds ancestor tokens through %s(%s, %s)", found.Name(), covering.Name(), acc.Name())
	}
	return []Obligation{ob1, ob2}
}

// checkFrontier: the level-by-level ancestor emitter (instances #1..#4).
func (t *gTT) checkFrontier(fd *ast.FuncDecl, name string, anc **types.Func) []Obligation {
	c, info := t.c, t.info
	obs := make([]Obligation, 4)
	labels := []string{"seed", "propagate", "emit", "advance"}
	for i := range obs {
		obs[i] = Obligation{Key: gNthKey(name, i+1), Pos: c.Position(fd.Pos()), Status: Undecided}
	}
	undecidedFrom := func(i int, why string) []Obligation {
		for j := i; j < 4; j++ {
			obs[j].Status = Undecided
			obs[j].Detail = fmt.Sprintf("%s (%s): %s; the level-by-level frontier idiom (seed / propagate / emit / advance) was not recognised", name, labels[j], why)
		}
		return obs
	}
	var covering, acc types.Object
	for _, f := range fd.Type.Params.List {
		for _, n := range f.Names {
			o := info.Defs[n]
			if o == nil {
				continue
			}
			if isNamed(o.Type(), gS2Path, "CellUnion") && covering == nil {
				covering = o
			} else if _, ok := o.Type().Underlying().(*types.Slice); ok && acc == nil {
				acc = o
			}
		}
	}
	if covering == nil || acc == nil {
		return undecidedFrom(0, "expected parameters (covering s2.CellUnion, tokens []string)")
	}
	g := newCFG(info, fd.Body)
	mapStoresIn := func(body ast.Node, key func(ast.Expr) bool) types.Object {
		var m types.Object
		inspectShallow(body, func(n ast.Node) bool {
			if mo, k := t.mapStore(n); mo != nil && key(k) && m == nil {
				m = mo
			}
			return true
		})
		return m
	}
	// #1 seed
	var seed *ast.RangeStmt
	for _, l := range t.loops(fd.Body) {
		if rs, ok := l.(*ast.RangeStmt); ok && t.identObj(rs.X) == covering && seed == nil {
			seed = rs
		}
	}
	if seed == nil {
		return undecidedFrom(0, "no range loop over the covering parameter")
	}
	sv := t.rangeVar(seed)
	if cl := t.findCountingLoop(seed.Body, sv); cl != nil {
		return t.checkCountingEmitter(g, fd, name, seed, sv, acc, cl, anc)
	}
	frontier := mapStoresIn(seed.Body, func(k ast.Expr) bool { return sv != nil && t.identObj(k) == sv })
	obs[0].Pos = c.Position(seed.Pos())
	if frontier == nil {
		obs[0].Status = Violation
		obs[0].Detail = fmt.Sprintf("%s: the loop over %s at %s stores no covering cell in a frontier map", name, covering.Name(), c.Position(seed.Pos()))
		return undecidedFrom(1, "no frontier map")
	}
	if w := t.throughBody(g, seed, func(n ast.Node) bool {
		m, k := t.mapStore(n)
		return m == frontier && t.identObj(k) == sv
	}, nil, func(n ast.Node) string {
		if gAssigns(info, n, sv) {
			return sv.Name() + " is re-assigned before it is stored"
		}
		return ""
	}, fmt.Sprintf("%s[%s] = ...", frontier.Name(), sv.Name())); w != nil {
		obs[0].Status = Violation
		obs[0].Detail = fmt.Sprintf("%s: a path through the seeding loop at %s does not put the covering cell into %s; its ancestors get no token", name, c.Position(seed.Pos()), frontier.Name())
		obs[0].Path = w
	} else {
		obs[0].Status, obs[0].Detail = OK, fmt.Sprintf("every covering cell is stored in the frontier map %s", frontier.Name())
	}
	// the outer loop: for len(frontier) > 0
	var outer *ast.ForStmt
	for _, l := range t.loops(fd.Body) {
		fs, ok := l.(*ast.ForStmt)
		if !ok || fs.Cond == nil || fs.Init != nil || fs.Post != nil || outer != nil {
			continue
		}
		be, ok := ast.Unparen(fs.Cond).(*ast.BinaryExpr)
		if !ok {
			continue
		}
		isLen := func(e ast.Expr) bool {
			call, ok := ast.Unparen(e).(*ast.CallExpr)
			return ok && isBuiltin(info, call, "len") && len(call.Args) == 1 && t.identObj(call.Args[0]) == frontier
		}
		zero := func(e ast.Expr) bool { k, ok := t.constInt(e); return ok && k == 0 }
		if (isLen(be.X) && zero(be.Y) && (be.Op == token.GTR || be.Op == token.NEQ)) || (zero(be.X) && isLen(be.Y) && (be.Op == token.LSS || be.Op == token.NEQ)) {
			outer = fs
		}
	}
	if outer == nil {
		return undecidedFrom(1, fmt.Sprintf("no `for len(%s) > 0` loop", frontier.Name()))
	}
	// #2 propagate
	var prop *ast.RangeStmt
	for _, l := range t.loops(outer.Body) {
		if rs, ok := l.(*ast.RangeStmt); ok && t.identObj(rs.X) == frontier && prop == nil {
			prop = rs
		}
	}
	if prop == nil {
		return undecidedFrom(1, fmt.Sprintf("no range loop over %s inside the frontier loop", frontier.Name()))
	}
	pv := t.rangeVar(prop)
	if pv == nil {
		return undecidedFrom(1, "the propagation loop has no key variable")
	}
	parents := mapStoresIn(prop.Body, func(k ast.Expr) bool { return t.parentOf(k) == pv })
	obs[1].Pos = c.Position(prop.Pos())
	if parents == nil {
		obs[1].Status = Violation
		obs[1].Detail = fmt.Sprintf("%s: the loop over %s at %s never stores %s.Parent(%s.Level()-1) in a map: no immediate parent is produced", name, frontier.Name(), c.Position(prop.Pos()), pv.Name(), pv.Name())
		return undecidedFrom(2, "no parents map")
	}
	if w := t.throughBody(g, prop, func(n ast.Node) bool {
		m, k := t.mapStore(n)
		return m == parents && t.parentOf(k) == pv
	}, func(b *cfg.Block, k int) bool {
		z, ok := t.levelZeroEdge(b, pv)
		return ok && z == k
	}, func(n ast.Node) string {
		if gAssigns(info, n, pv) {
			return pv.Name() + " is re-assigned"
		}
		return ""
	}, fmt.Sprintf("%s[%s.Parent(%s.Level()-1)] = ... (and not over a level-0 test of %s)", parents.Name(), pv.Name(), pv.Name(), pv.Name())); w != nil {
		obs[1].Status = Violation
		obs[1].Detail = fmt.Sprintf("%s: a path through the propagation loop at %s skips a cell that is not known to be at level 0 without storing its immediate parent in %s; that ancestor and all above it get no token", name, c.Position(prop.Pos()), parents.Name())
		obs[1].Path = w
	} else {
		obs[1].Status, obs[1].Detail = OK, fmt.Sprintf("every frontier cell above level 0 stores its immediate parent in %s", parents.Name())
	}
	// #3 emit
	var emit *ast.RangeStmt
	for _, l := range t.loops(outer.Body) {
		if rs, ok := l.(*ast.RangeStmt); ok && t.identObj(rs.X) == parents && emit == nil {
			emit = rs
		}
	}
	if emit == nil {
		obs[2].Status = Violation
		obs[2].Detail = fmt.Sprintf("%s: no loop over %s emits the ancestors' tokens", name, parents.Name())
		return undecidedFrom(3, "no emission loop")
	}
	ev := t.rangeVar(emit)
	obs[2].Pos = c.Position(emit.Pos())
	var ctor *types.Func
	inspectShallow(emit.Body, func(n ast.Node) bool {
		if a, f, wrapped := t.emission(n, ev); f != nil && a == acc && !wrapped && ctor == nil {
			ctor = f
		}
		return true
	})
	if ctor == nil {
		obs[2].Status = Violation
		obs[2].Detail = fmt.Sprintf("%s: the loop over %s at %s never appends a cell token constructor applied to its key to %s", name, parents.Name(), c.Position(emit.Pos()), acc.Name())
	} else {
		*anc = ctor
		what := fmt.Sprintf("%s = append(%s, %s(%s))", acc.Name(), acc.Name(), ctor.Name(), ev.Name())
		if w := t.throughBody(g, emit, func(n ast.Node) bool {
			a, f, wrapped := t.emission(n, ev)
			return f == ctor && a == acc && !wrapped
		}, nil, func(n ast.Node) string {
			if gAssigns(info, n, ev) {
				return ev.Name() + " is re-assigned before its token is emitted"
			}
			return ""
		}, what); w != nil {
			obs[2].Status = Violation
			obs[2].Detail = fmt.Sprintf("%s: a path through the emission loop at %s does not execute %s for an ancestor", name, c.Position(emit.Pos()), what)
			obs[2].Path = w
		} else {
			obs[2].Status, obs[2].Detail = OK, fmt.Sprintf("every ancestor in %s is emitted with %s", parents.Name(), t.ctorName(ctor))
		}
	}
	// every return returns the accumulator
	inspectShallow(fd.Body, func(n ast.Node) bool {
		if rs, ok := n.(*ast.ReturnStmt); ok && obs[2].Status == OK {
			if len(rs.Results) != 1 || t.identObj(rs.Results[0]) != acc {
				obs[2].Status = Violation
				obs[2].Detail = fmt.Sprintf("%s: %s %s does not return the accumulated tokens %s", name, c.Position(rs.Pos()), nodeText(c.Fset, rs), acc.Name())
			}
		}
		return true
	})
	// #4 advance
	obs[3].Pos = c.Position(outer.Pos())
	isAdvance := func(n ast.Node) bool {
		as, ok := n.(*ast.AssignStmt)
		return ok && as.Tok == token.ASSIGN && len(as.Lhs) == 1 && len(as.Rhs) == 1 && t.identObj(as.Lhs[0]) == frontier && t.identObj(as.Rhs[0]) == parents
	}
	var emitHead, propHead *cfg.Block
	for _, b := range g.Blocks {
		if b.Kind == cfg.KindRangeLoop && b.Stmt == ast.Stmt(emit) {
			emitHead = b
		}
		if b.Kind == cfg.KindRangeLoop && b.Stmt == ast.Stmt(prop) {
			propHead = b
		}
	}
	body, iter, done := gLoopBlocks(g, outer)
	leave := func(what string) func(b *cfg.Block) string {
		return func(b *cfg.Block) string {
			if iter[b] {
				return fmt.Sprintf("starts the next iteration of the frontier loop at %s without %s", c.Position(outer.Pos()), what)
			}
			if b == done {
				return fmt.Sprintf("breaks out of the frontier loop at %s", c.Position(outer.Pos()))
			}
			return ""
		}
	}
	// (i) body entry -> propagation loop before anything else that matters
	s1 := &gSearch{c: c, info: info, exitBad: true, stopBlock: func(b *cfg.Block) bool { return b == propHead },
		killNode: func(n ast.Node) string {
			if isAdvance(n) {
				return "the frontier is replaced before it was propagated"
			}
			return ""
		}, badBlock: leave("propagating the frontier")}
	// (ii) after propagation -> emission loop head before the advance
	s2 := &gSearch{c: c, info: info, exitBad: true, stopBlock: func(b *cfg.Block) bool { return b == emitHead },
		killNode: func(n ast.Node) string {
			if isAdvance(n) {
				return "the frontier is replaced before the parents were emitted"
			}
			return ""
		}, badBlock: leave("emitting the parents")}
	// (iii) after emission -> advance before the next iteration
	s3 := &gSearch{c: c, info: info, exitBad: true, stopNode: isAdvance,
		badBlock: leave(fmt.Sprintf("%s = %s", frontier.Name(), parents.Name()))}
	var w []string
	var propDone, emitDone *cfg.Block
	for _, b := range g.Blocks {
		if b.Kind == cfg.KindRangeDone && b.Stmt == ast.Stmt(prop) {
			propDone = b
		}
		if b.Kind == cfg.KindRangeDone && b.Stmt == ast.Stmt(emit) {
			emitDone = b
		}
	}
	switch {
	case body == nil || propHead == nil || emitHead == nil || propDone == nil || emitDone == nil:
		w = []string{"loops not found in the control-flow graph"}
	default:
		if w = s1.forward(body, 0); w == nil {
			if w = s2.forward(propDone, 0); w == nil {
				w = s3.forward(emitDone, 0)
			}
		}
	}
	// no break/return out of the two inner loops either
	if w == nil {
		for _, inner := range []*ast.RangeStmt{prop, emit} {
			inspectShallow(inner.Body, func(n ast.Node) bool {
				switch s := n.(type) {
				case *ast.ReturnStmt:
					w = []string{"returns from inside the loop at " + c.Position(s.Pos())}
				case *ast.BranchStmt:
					if s.Tok == token.BREAK || s.Tok == token.GOTO {
						w = []string{s.Tok.String() + " inside the loop at " + c.Position(s.Pos()) + " abandons the remaining cells"}
					}
				}
				return true
			})
		}
	}
	if w != nil {
		obs[3].Status = Violation
		obs[3].Detail = fmt.Sprintf("%s: the frontier loop at %s does not, on every path, propagate, emit and then advance (%s = %s) before its next iteration; ancestors above that level get no token", name, c.Position(outer.Pos()), frontier.Name(), parents.Name())
		obs[3].Path = w
	} else {
		obs[3].Status, obs[3].Detail = OK, fmt.Sprintf("every iteration propagates %s, emits %s and advances %s = %s; the loop ends only when the frontier is empty", frontier.Name(), parents.Name(), frontier.Name(), parents.Name())
	}
	return obs
}

// checkRewrite: the query side (instances #1..#3).
func (t *gTT) checkRewrite(fd *ast.FuncDecl, name string, marker, own **types.Func) []Obligation {
	c, info := t.c, t.info
	obs := make([]Obligation, 3)
	labels := []string{"marker", "walk", "own tokens"}
	for i := range obs {
		obs[i] = Obligation{Key: gNthKey(name, i+1), Pos: c.Position(fd.Pos()), Status: Undecided}
	}
	undecidedFrom := func(i int, why string) []Obligation {
		for j := i; j < 3; j++ {
			obs[j].Status = Undecided
			obs[j].Detail = fmt.Sprintf("%s (%s): %s; the walk-to-the-root idiom was not recognised", name, labels[j], why)
		}
		return obs
	}
	g := newCFG(info, fd.Body)
	// the loop over the covering: a range over a value of type s2.CellUnion
	var cover *ast.RangeStmt
	for _, l := range t.loops(fd.Body) {
		if rs, ok := l.(*ast.RangeStmt); ok && isNamed(info.TypeOf(rs.X), gS2Path, "CellUnion") && cover == nil {
			cover = rs
		}
	}
	if cover == nil {
		return undecidedFrom(0, "no range loop over an s2.CellUnion")
	}
	v := t.rangeVar(cover)
	if v == nil {
		return undecidedFrom(0, "the loop over the covering has no value variable")
	}
	// #1 marker
	obs[0].Pos = c.Position(cover.Pos())
	var acc types.Object
	var mctor *types.Func
	inspectShallow(cover.Body, func(n ast.Node) bool {
		if a, f, wrapped := t.emission(n, v); f != nil && wrapped && mctor == nil {
			acc, mctor = a, f
		}
		return true
	})
	if mctor == nil {
		obs[0].Status = Violation
		obs[0].Detail = fmt.Sprintf("%s: the loop over the covering at %s never appends All{Token: ctor(%s)}: features indexed below a covering cell are not searched for", name, c.Position(cover.Pos()), v.Name())
	} else {
		*marker = mctor
		what := fmt.Sprintf("%s = append(%s, All{Token: %s(%s)})", acc.Name(), acc.Name(), mctor.Name(), v.Name())
		if w := t.throughBody(g, cover, func(n ast.Node) bool {
			a, f, wrapped := t.emission(n, v)
			return f == mctor && a == acc && wrapped
		}, nil, func(n ast.Node) string {
			if gAssigns(info, n, v) {
				return v.Name() + " is re-assigned before the covering cell's marker token is added"
			}
			return ""
		}, what); w != nil {
			obs[0].Status = Violation
			obs[0].Detail = fmt.Sprintf("%s: a path through the loop over the covering at %s does not execute %s for the covering cell itself", name, c.Position(cover.Pos()), what)
			obs[0].Path = w
		} else {
			obs[0].Status, obs[0].Detail = OK, fmt.Sprintf("every covering cell contributes its marker token %s", t.ctorName(mctor))
		}
	}
	// #2 walk (stepping walk or counting loop)
	var ids types.Object
	walkIdiom := func() (stop bool) {
		var walk *ast.ForStmt
		var steps, otherAssigns []*ast.AssignStmt
		for _, l := range t.loops(cover.Body) {
			fs, ok := l.(*ast.ForStmt)
			if !ok || walk != nil {
				continue
			}
			has := false
			inspectShallow(fs.Body, func(n ast.Node) bool {
				if as, ok := n.(*ast.AssignStmt); ok && len(as.Lhs) == 1 && len(as.Rhs) == 1 && t.identObj(as.Lhs[0]) == v && t.parentOf(as.Rhs[0]) == v {
					has = true
				}
				return true
			})
			if has {
				walk = fs
			}
		}
		if walk == nil {
			// no stepping walk: a counting loop over the levels?
			if cl := t.findCountingLoop(cover.Body, v); cl != nil {
				ids = t.decideQueryCounting(g, name, cover, v, cl, &obs[1])
				if ids == nil {
					undecidedFrom(2, "the counting loop records no cell in a map")
					return true
				}
				return false
			}
			undecidedFrom(1, fmt.Sprintf("neither a for loop stepping %s = %s.Parent(%s.Level()-1) nor a counting loop over %s.Parent(level) inside the loop over the covering", v.Name(), v.Name(), v.Name(), v.Name()))
			return true
		}
		obs[1].Pos = c.Position(walk.Pos())
		if walk.Cond != nil || walk.Init != nil || walk.Post != nil {
			obs[1].Status = Undecided
			obs[1].Detail = fmt.Sprintf("%s: the walk at %s has a loop condition; only `for { record; if level 0 { break }; step }` is a known idiom", name, c.Position(walk.Pos()))
			undecidedFrom(2, "walk not recognised")
			return true
		}
		inspectShallow(walk.Body, func(n ast.Node) bool {
			if gAssigns(info, n, v) {
				if as, ok := n.(*ast.AssignStmt); ok && len(as.Lhs) == 1 && len(as.Rhs) == 1 && t.parentOf(as.Rhs[0]) == v {
					steps = append(steps, as)
				} else if as, ok := n.(*ast.AssignStmt); ok {
					otherAssigns = append(otherAssigns, as)
				} else {
					otherAssigns = append(otherAssigns, nil)
				}
			}
			return true
		})
		inspectShallow(walk.Body, func(n ast.Node) bool {
			if m, k := t.mapStore(n); m != nil && t.identObj(k) == v && ids == nil {
				ids = m
			}
			return true
		})
		if ids == nil {
			obs[1].Status = Violation
			obs[1].Detail = fmt.Sprintf("%s: the walk at %s never records %s in a map keyed by cell: no own-token is looked up for the cell or its ancestors", name, c.Position(walk.Pos()), v.Name())
			undecidedFrom(2, "no record map")
			return true
		}
		isRecord := func(n ast.Node) bool {
			m, k := t.mapStore(n)
			return m == ids && t.identObj(k) == v
		}
		wbody, witer, wdone := gLoopBlocks(g, walk)
		var problems []string
		var path []string
		if len(otherAssigns) > 0 {
			problems = append(problems, fmt.Sprintf("%s is assigned in the walk by something other than the immediate-parent step", v.Name()))
		}
		leaveWalk := func(b *cfg.Block) string {
			if b == wdone {
				return fmt.Sprintf("leaves the walk at %s", c.Position(walk.Pos()))
			}
			if !gInside(b, walk) {
				return fmt.Sprintf("jumps out of the walk at %s", c.Position(walk.Pos()))
			}
			return ""
		}
		// (a) entry: record before assigning v, before the next iteration, before leaving
		sa := &gSearch{c: c, info: info, exitBad: true, stopNode: isRecord,
			killNode: func(n ast.Node) string {
				if gAssigns(info, n, v) {
					return v.Name() + " is stepped before it was recorded"
				}
				return ""
			},
			badBlock: func(b *cfg.Block) string {
				if witer[b] {
					return "starts the next iteration without recording " + v.Name()
				}
				return leaveWalk(b)
			}}
		if w := sa.forward(wbody, 0); w != nil {
			problems = append(problems, fmt.Sprintf("a path through the walk body reaches a step, the next iteration or the end of the walk without %s[%s] = ...", ids.Name(), v.Name()))
			path = append(path, w...)
		}
		// (b) after each step: record again before leaving the walk (going round the loop is fine)
		for _, st := range steps {
			loc, ok := findNode(g, st)
			if !ok {
				problems = append(problems, "step not found in the control-flow graph")
				continue
			}
			sb := &gSearch{c: c, info: info, exitBad: true, stopNode: isRecord, badBlock: leaveWalk,
				killNode: func(n ast.Node) string {
					if gAssigns(info, n, v) {
						return v.Name() + " is stepped again before it was recorded"
					}
					return ""
				}}
			if w := sb.forward(loc.b, loc.i+1); w != nil {
				problems = append(problems, fmt.Sprintf("after the step at %s the walk can end without recording the new %s (the face cell is lost)", c.Position(st.Pos()), v.Name()))
				path = append(path, w...)
			}
		}
		// (c) the walk is left only over a level-0 edge
		sc := &gSearch{c: c, info: info, exitBad: true,
			stopEdge: func(b *cfg.Block, k int) bool {
				z, ok := t.levelZeroEdge(b, v)
				return ok && z == k
			},
			stopBlock: func(b *cfg.Block) bool { return witer[b] },
			badBlock:  leaveWalk}
		if w := sc.forward(wbody, 0); w != nil {
			problems = append(problems, fmt.Sprintf("the walk can be left while %s is not known to be at level 0 (ancestors above it are not looked up)", v.Name()))
			path = append(path, w...)
		}
		if len(problems) > 0 {
			obs[1].Status = Violation
			obs[1].Detail = fmt.Sprintf("%s: walk to the root at %s: %s", name, c.Position(walk.Pos()), problems[0])
			obs[1].Path = append(problems, path...)
		} else {
			obs[1].Status = OK
			obs[1].Detail = fmt.Sprintf("the walk records %s in %s at every level, steps to the immediate parent and ends only at level 0", v.Name(), ids.Name())
		}
		return false
	}
	if walkIdiom() {
		return obs
	}
	// #3 own tokens
	var emit *ast.RangeStmt
	for _, l := range t.loops(fd.Body) {
		if rs, ok := l.(*ast.RangeStmt); ok && t.identObj(rs.X) == ids && emit == nil {
			emit = rs
		}
	}
	if emit == nil {
		obs[2].Status = Violation
		obs[2].Detail = fmt.Sprintf("%s: no loop over %s turns the recorded cells into tokens", name, ids.Name())
		return obs
	}
	obs[2].Pos = c.Position(emit.Pos())
	ev := t.rangeVar(emit)
	var octor *types.Func
	var oacc types.Object
	inspectShallow(emit.Body, func(n ast.Node) bool {
		if a, f, wrapped := t.emission(n, ev); f != nil && wrapped && octor == nil {
			oacc, octor = a, f
		}
		return true
	})
	if octor == nil {
		obs[2].Status = Violation
		obs[2].Detail = fmt.Sprintf("%s: the loop over %s at %s never appends All{Token: ctor(key)}", name, ids.Name(), c.Position(emit.Pos()))
		return obs
	}
	*own = octor
	what := fmt.Sprintf("%s = append(%s, All{Token: %s(%s)})", oacc.Name(), oacc.Name(), octor.Name(), ev.Name())
	var w []string
	if acc != nil && oacc != acc {
		w = []string{fmt.Sprintf("own tokens are appended to %s, marker tokens to %s", oacc.Name(), acc.Name())}
	}
	if w == nil {
		w = t.throughBody(g, emit, func(n ast.Node) bool {
			a, f, wrapped := t.emission(n, ev)
			return f == octor && a == oacc && wrapped
		}, nil, func(n ast.Node) string {
			if gAssigns(info, n, ev) {
				return ev.Name() + " is re-assigned before its token is added"
			}
			return ""
		}, what)
	}
	if w == nil {
		// the loop lies on every path to a return, and every return returns the accumulator
		var head *cfg.Block
		for _, b := range g.Blocks {
			if b.Kind == cfg.KindRangeLoop && b.Stmt == ast.Stmt(emit) {
				head = b
			}
		}
		s := &gSearch{c: c, info: info, exitBad: true, stopBlock: func(b *cfg.Block) bool { return b == head }}
		if ww := s.forward(g.Blocks[0], 0); ww != nil {
			w = append([]string{"a path returns without running the loop over " + ids.Name()}, ww...)
		}
		inspectShallow(fd.Body, func(n ast.Node) bool {
			if rs, ok := n.(*ast.ReturnStmt); ok && w == nil {
				if len(rs.Results) != 1 || t.identObj(rs.Results[0]) != oacc {
					w = []string{fmt.Sprintf("%s %s does not return the rewritten query %s", c.Position(rs.Pos()), nodeText(c.Fset, rs), oacc.Name())}
				}
			}
			return true
		})
	}
	if w != nil {
		obs[2].Status = Violation
		obs[2].Detail = fmt.Sprintf("%s: not every recorded cell of %s ends up as an own-token term (%s) of the returned query", name, ids.Name(), what)
		obs[2].Path = w
	} else {
		obs[2].Status, obs[2].Detail = OK, fmt.Sprintf("every recorded cell yields %s and the result is returned", t.ctorName(octor))
	}
	return obs
}

// ---------------------------------------------------------------------------------------
// Counting loops over the levels: `for lv := INIT; COND; lv--` (or ascending) whose body visits
// cell.Parent(lv).

type gCountLoop struct {
	loop   *ast.ForStmt
	lv     types.Object
	cell   types.Object
	desc   bool
	topOff int64  // highest level visited = cell.Level() + topOff
	bottom int64  // lowest level visited
	why    string // non-empty: the bounds could not be read
}

// parentAt matches cell.Parent(lv).
func (t *gTT) parentAt(e ast.Expr, cell, lv types.Object) bool {
	call, ok := ast.Unparen(e).(*ast.CallExpr)
	if !ok || len(call.Args) != 1 || cell == nil || lv == nil {
		return false
	}
	se, ok := ast.Unparen(call.Fun).(*ast.SelectorExpr)
	if !ok || t.identObj(se.X) != cell || !t.isCellID(se.X) {
		return false
	}
	if f := calleeFunc(t.info, call); f == nil || f.Name() != "Parent" || f.Pkg() == nil || f.Pkg().Path() != gS2Path {
		return false
	}
	return t.identObj(call.Args[0]) == lv
}

// levelOffset matches cell.Level(), cell.Level() - k, cell.Level() + k and returns the offset.
func (t *gTT) levelOffset(e ast.Expr, cell types.Object) (int64, bool) {
	e = ast.Unparen(e)
	if t.levelCall(e) == cell && cell != nil {
		return 0, true
	}
	if be, ok := e.(*ast.BinaryExpr); ok && (be.Op == token.SUB || be.Op == token.ADD) && t.levelCall(be.X) == cell && cell != nil {
		if k, ok := t.constInt(be.Y); ok {
			if be.Op == token.SUB {
				return -k, true
			}
			return k, true
		}
	}
	return 0, false
}

// findCountingLoop returns the first three-clause for statement below root whose body mentions
// cell.Parent(lv) for its own loop variable lv.
func (t *gTT) findCountingLoop(root ast.Node, cell types.Object) *gCountLoop {
	if cell == nil {
		return nil
	}
	for _, l := range t.loops(root) {
		fs, ok := l.(*ast.ForStmt)
		if !ok || fs.Init == nil {
			continue
		}
		init, ok := fs.Init.(*ast.AssignStmt)
		if !ok || len(init.Lhs) != 1 || len(init.Rhs) != 1 {
			continue
		}
		lv := t.identObj(init.Lhs[0])
		if lv == nil {
			continue
		}
		uses := false
		ast.Inspect(fs.Body, func(n ast.Node) bool {
			if e, ok := n.(ast.Expr); ok && t.parentAt(e, cell, lv) {
				uses = true
			}
			return true
		})
		if !uses {
			continue
		}
		cl := &gCountLoop{loop: fs, lv: lv, cell: cell}
		// step
		step := int64(0)
		switch p := fs.Post.(type) {
		case *ast.IncDecStmt:
			if t.identObj(p.X) == lv {
				step = 1
				if p.Tok == token.DEC {
					step = -1
				}
			}
		case *ast.AssignStmt:
			if len(p.Lhs) == 1 && len(p.Rhs) == 1 && t.identObj(p.Lhs[0]) == lv {
				switch p.Tok {
				case token.ADD_ASSIGN, token.SUB_ASSIGN:
					if k, ok := t.constInt(p.Rhs[0]); ok && k == 1 {
						step = 1
						if p.Tok == token.SUB_ASSIGN {
							step = -1
						}
					}
				case token.ASSIGN:
					if be, ok := ast.Unparen(p.Rhs[0]).(*ast.BinaryExpr); ok && t.identObj(be.X) == lv {
						if k, ok := t.constInt(be.Y); ok && k == 1 {
							if be.Op == token.ADD {
								step = 1
							} else if be.Op == token.SUB {
								step = -1
							}
						}
					}
				}
			}
		}
		if step == 0 {
			cl.why = "the post statement is not a step of the level variable by one"
			return cl
		}
		cl.desc = step < 0
		// condition, normalised to `lv OP other`
		be, ok := ast.Unparen(fs.Cond).(*ast.BinaryExpr)
		if fs.Cond == nil || !ok {
			cl.why = "the loop condition is not a comparison of the level variable"
			return cl
		}
		op, other := be.Op, be.Y
		switch {
		case t.identObj(be.X) == lv:
		case t.identObj(be.Y) == lv:
			op, other = gFlipOp(be.Op), be.X
		default:
			cl.why = "the loop condition does not test the level variable"
			return cl
		}
		if cl.desc {
			off, ok := t.levelOffset(init.Rhs[0], cell)
			if !ok {
				cl.why = fmt.Sprintf("the start %s is not %s.Level() plus or minus a constant", types.ExprString(init.Rhs[0]), cell.Name())
				return cl
			}
			cl.topOff = off
			k, ok := t.constInt(other)
			if !ok {
				cl.why = "the loop condition does not compare with a constant"
				return cl
			}
			switch op {
			case token.GTR, token.NEQ:
				cl.bottom = k + 1
			case token.GEQ:
				cl.bottom = k
			default:
				cl.why = fmt.Sprintf("a descending loop with condition %s", types.ExprString(fs.Cond))
			}
			return cl
		}
		k, ok := t.constInt(init.Rhs[0])
		if !ok {
			cl.why = fmt.Sprintf("the start %s of an ascending loop is not a constant", types.ExprString(init.Rhs[0]))
			return cl
		}
		cl.bottom = k
		off, ok := t.levelOffset(other, cell)
		if !ok {
			cl.why = fmt.Sprintf("the loop condition does not compare with %s.Level() plus or minus a constant", cell.Name())
			return cl
		}
		switch op {
		case token.LEQ:
			cl.topOff = off
		case token.LSS, token.NEQ:
			cl.topOff = off - 1
		default:
			cl.why = fmt.Sprintf("an ascending loop with condition %s", types.ExprString(fs.Cond))
		}
		return cl
	}
	return nil
}

func (cl *gCountLoop) header() string {
	return fmt.Sprintf("for %s; %s; %s", nodeTextOf(cl.loop.Init), types.ExprString(cl.loop.Cond), nodeTextOf(cl.loop.Post))
}

func nodeTextOf(n ast.Node) string {
	switch x := n.(type) {
	case *ast.AssignStmt:
		return types.ExprString(x.Lhs[0]) + " " + x.Tok.String() + " " + types.ExprString(x.Rhs[0])
	case *ast.IncDecStmt:
		return types.ExprString(x.X) + x.Tok.String()
	}
	return "..."
}

// aliases of cell.Parent(lv) defined in the loop body: p := cell.Parent(lv)
func (t *gTT) parentAliases(cl *gCountLoop) map[types.Object]bool {
	out := map[types.Object]bool{}
	assigns := map[types.Object]int{}
	inspectShallow(cl.loop.Body, func(n ast.Node) bool {
		if as, ok := n.(*ast.AssignStmt); ok && len(as.Lhs) == len(as.Rhs) {
			for i, l := range as.Lhs {
				if o := t.identObj(l); o != nil {
					assigns[o]++
					if t.parentAt(as.Rhs[i], cl.cell, cl.lv) {
						out[o] = true
					}
				}
			}
		}
		return true
	})
	for o := range out {
		if assigns[o] != 1 {
			delete(out, o)
		}
	}
	return out
}

// bodyDiscipline: the cell and the level variable are not assigned in the body, every path
// through the body passes a visit, and the body never leaves the loop early.
func (t *gTT) bodyDiscipline(g *cfg.CFG, cl *gCountLoop, visit func(ast.Node) bool, seenEdge func(*cfg.Block, int) bool, what string) (problems []string, path []string) {
	c, info := t.c, t.info
	inspectShallow(cl.loop.Body, func(n ast.Node) bool {
		if gAssigns(info, n, cl.cell) {
			problems = append(problems, fmt.Sprintf("%s is re-assigned inside the counting loop at %s", cl.cell.Name(), c.Position(n.Pos())))
		}
		if gAssigns(info, n, cl.lv) {
			problems = append(problems, fmt.Sprintf("the level variable %s is assigned inside the loop body at %s", cl.lv.Name(), c.Position(n.Pos())))
		}
		return true
	})
	if w := t.throughBody(g, cl.loop, visit, seenEdge, nil, what); w != nil {
		problems = append(problems, fmt.Sprintf("a path through the body of `%s` at %s does not execute %s for that level", cl.header(), c.Position(cl.loop.Pos()), what))
		path = append(path, w...)
	}
	body, iter, done := gLoopBlocks(g, cl.loop)
	if body != nil {
		s := &gSearch{c: c, info: info, exitBad: true,
			stopBlock: func(b *cfg.Block) bool { return iter[b] },
			badBlock: func(b *cfg.Block) string {
				if b == done || !gInside(b, cl.loop) {
					return fmt.Sprintf("leaves the counting loop at %s before its condition ends it", c.Position(cl.loop.Pos()))
				}
				return ""
			}}
		if w := s.forward(body, 0); w != nil {
			problems = append(problems, fmt.Sprintf("the body of `%s` at %s can leave the loop early (break/return); the remaining levels are not visited", cl.header(), c.Position(cl.loop.Pos())))
			path = append(path, w...)
		}
	}
	return
}

// levelsVerdict: which levels between the required top (cell.Level()+needTop) and 0 are never
// visited. ownSeparately says that the cell's own level is visited outside the loop.
func (cl *gCountLoop) levelsVerdict(needTop int64, ownSeparately bool, verb string) (status, detail string) {
	cell := cl.cell.Name()
	switch {
	case cl.why != "":
		return Undecided, fmt.Sprintf("counting loop `%s`: %s", cl.header(), cl.why)
	case cl.bottom < 0:
		return Undecided, fmt.Sprintf("counting loop `%s` runs below level 0 (down to %d)", cl.header(), cl.bottom)
	case cl.topOff > 0:
		return Undecided, fmt.Sprintf("counting loop `%s` starts above the cell's own level", cl.header())
	case cl.bottom == 1:
		return Violation, fmt.Sprintf("level 0 — the face cell — is never %s: the loop `%s` visits levels %s down to 1 (condition `%s`)", verb, cl.header(), cl.topText(), types.ExprString(cl.loop.Cond))
	case cl.bottom > 1:
		return Violation, fmt.Sprintf("levels 0 to %d (the face cell and the cells above level %d) are never %s: the loop `%s` stops at level %d (condition `%s`)", cl.bottom-1, cl.bottom, verb, cl.header(), cl.bottom, types.ExprString(cl.loop.Cond))
	}
	// bottom == 0
	have := cl.topOff
	if ownSeparately && cl.topOff == -1 {
		have = 0 // the loop starts just below the cell, whose own level is visited outside the loop
	}
	if have < needTop {
		missingTop := "the cell's own level"
		if needTop < 0 {
			missingTop = fmt.Sprintf("level %s.Level()%d", cell, needTop)
		}
		return Violation, fmt.Sprintf("%s is never %s: the loop `%s` visits no level above %s and nothing else covers the levels above it", missingTop, verb, cl.header(), cl.topText())
	}
	return OK, fmt.Sprintf("the loop `%s` visits every level from %s down to 0", cl.header(), cl.topText())
}

func (cl *gCountLoop) topText() string {
	switch {
	case cl.topOff == 0:
		return cl.cell.Name() + ".Level()"
	case cl.topOff < 0:
		return fmt.Sprintf("%s.Level()%d", cl.cell.Name(), cl.topOff)
	}
	return fmt.Sprintf("%s.Level()+%d", cl.cell.Name(), cl.topOff)
}

// decideQueryCounting decides RewriteSpatialQuery#2 for a counting loop and returns the record map.
func (t *gTT) decideQueryCounting(g *cfg.CFG, name string, cover *ast.RangeStmt, v types.Object, cl *gCountLoop, ob *Obligation) types.Object {
	c, info := t.c, t.info
	ob.Pos = c.Position(cl.loop.Pos())
	aliases := t.parentAliases(cl)
	isParentKey := func(k ast.Expr) bool {
		return t.parentAt(k, cl.cell, cl.lv) || aliases[t.identObj(k)]
	}
	var ids types.Object
	inspectShallow(cl.loop.Body, func(n ast.Node) bool {
		if m, k := t.mapStore(n); m != nil && isParentKey(k) && ids == nil {
			ids = m
		}
		return true
	})
	if ids == nil {
		ob.Status = Violation
		ob.Detail = fmt.Sprintf("%s: the counting loop `%s` at %s never records %s.Parent(%s) in a map keyed by cell: no own-token is looked up for the ancestors", name, cl.header(), c.Position(cl.loop.Pos()), v.Name(), cl.lv.Name())
		return nil
	}
	what := fmt.Sprintf("%s[%s.Parent(%s)] = ...", ids.Name(), v.Name(), cl.lv.Name())
	problems, path := t.bodyDiscipline(g, cl, func(n ast.Node) bool {
		m, k := t.mapStore(n)
		return m == ids && isParentKey(k)
	}, nil, what)
	// the covering cell must not be re-assigned before the loop either
	// own level recorded separately: ids[v] = ... on every path through the loop over the covering
	ownSeparately := false
	hasOwn := false
	inspectShallow(cover.Body, func(n ast.Node) bool {
		if m, k := t.mapStore(n); m == ids && t.identObj(k) == v {
			hasOwn = true
		}
		return true
	})
	if hasOwn {
		w := t.throughBody(g, cover, func(n ast.Node) bool {
			m, k := t.mapStore(n)
			return m == ids && t.identObj(k) == v
		}, nil, func(n ast.Node) string {
			if gAssigns(info, n, v) {
				return v.Name() + " is re-assigned before it is recorded"
			}
			return ""
		}, fmt.Sprintf("%s[%s] = ...", ids.Name(), v.Name()))
		ownSeparately = w == nil
		if w != nil && cl.topOff < 0 {
			problems = append(problems, fmt.Sprintf("%s[%s] = ... (the cell's own level) is not executed on every path through the loop over the covering", ids.Name(), v.Name()))
			path = append(path, w...)
		}
	}
	// every covering cell reaches the counting loop
	var head *cfg.Block
	for _, b := range g.Blocks {
		if b.Stmt == ast.Stmt(cl.loop) && (b.Kind == cfg.KindForLoop) {
			head = b
		}
	}
	if head != nil {
		cbody, citer, cdone := gLoopBlocks(g, cover)
		s := &gSearch{c: c, info: info, exitBad: true, stopBlock: func(b *cfg.Block) bool { return b == head },
			killNode: func(n ast.Node) string {
				if gAssigns(info, n, v) {
					return v.Name() + " is re-assigned before the counting loop"
				}
				return ""
			},
			badBlock: func(b *cfg.Block) string {
				if citer[b] || b == cdone {
					return "a covering cell skips the counting loop"
				}
				return ""
			}}
		if cbody != nil {
			if w := s.forward(cbody, 0); w != nil {
				problems = append(problems, fmt.Sprintf("a path through the loop over the covering does not reach the counting loop at %s with %s unchanged", c.Position(cl.loop.Pos()), v.Name()))
				path = append(path, w...)
			}
		}
	}
	status, detail := cl.levelsVerdict(0, ownSeparately, "looked up")
	switch {
	case status == Undecided:
		ob.Status, ob.Detail = Undecided, fmt.Sprintf("%s: %s", name, detail)
	case status == Violation:
		ob.Status, ob.Detail = Violation, fmt.Sprintf("%s: walk to the root at %s: %s", name, c.Position(cl.loop.Pos()), detail)
		ob.Path = append(problems, path...)
	case len(problems) > 0:
		ob.Status, ob.Detail = Violation, fmt.Sprintf("%s: walk to the root at %s: %s", name, c.Position(cl.loop.Pos()), problems[0])
		ob.Path = append(problems, path...)
	default:
		own := ""
		if cl.topOff < 0 {
			own = fmt.Sprintf("; the cell's own level is recorded by %s[%s] = ...", ids.Name(), v.Name())
		}
		ob.Status, ob.Detail = OK, fmt.Sprintf("%s, recording each in %s%s", detail, ids.Name(), own)
	}
	return ids
}

// checkCountingEmitter: the index-side ancestor emitter written as a counting loop
// (instances #1 reach, #2 levels, #3 emission, #4 loop discipline).
func (t *gTT) checkCountingEmitter(g *cfg.CFG, fd *ast.FuncDecl, name string, seed *ast.RangeStmt, sv, acc types.Object, cl *gCountLoop, anc **types.Func) []Obligation {
	c, info := t.c, t.info
	obs := make([]Obligation, 4)
	for i := range obs {
		obs[i] = Obligation{Key: gNthKey(name, i+1), Pos: c.Position(cl.loop.Pos())}
	}
	obs[0].Pos = c.Position(seed.Pos())
	// #1 every covering cell reaches the counting loop unchanged
	var head *cfg.Block
	for _, b := range g.Blocks {
		if b.Stmt == ast.Stmt(cl.loop) && b.Kind == cfg.KindForLoop {
			head = b
		}
	}
	sbody, siter, sdone := gLoopBlocks(g, seed)
	var w []string
	if head == nil || sbody == nil {
		w = []string{"loops not found in the control-flow graph"}
	} else {
		s := &gSearch{c: c, info: info, exitBad: true, stopBlock: func(b *cfg.Block) bool { return b == head },
			killNode: func(n ast.Node) string {
				if gAssigns(info, n, sv) {
					return sv.Name() + " is re-assigned before the counting loop"
				}
				return ""
			},
			badBlock: func(b *cfg.Block) string {
				if siter[b] || b == sdone {
					return "a covering cell skips the counting loop"
				}
				return ""
			}}
		w = s.forward(sbody, 0)
	}
	if w != nil {
		obs[0].Status = Violation
		obs[0].Detail = fmt.Sprintf("%s: a path through the loop over the covering at %s does not reach the counting loop over the levels; that cell's ancestors get no token", name, c.Position(seed.Pos()))
		obs[0].Path = w
	} else {
		obs[0].Status, obs[0].Detail = OK, fmt.Sprintf("every covering cell enters the counting loop `%s`", cl.header())
	}
	// #2 levels: proper ancestors, cell.Level()-1 down to 0
	st, detail := cl.levelsVerdict(-1, false, "given a token")
	obs[1].Status, obs[1].Detail = st, fmt.Sprintf("%s: %s", name, detail)
	// #3 emission on every path through the body
	aliases := t.parentAliases(cl)
	match := func(e ast.Expr) bool { return t.parentAt(e, cl.cell, cl.lv) || aliases[t.identObj(e)] }
	var ctor *types.Func
	inspectShallow(cl.loop.Body, func(n ast.Node) bool {
		if a, f, wrapped := t.emissionOf(n, match); f != nil && a == acc && !wrapped && ctor == nil {
			ctor = f
		}
		return true
	})
	if ctor == nil {
		obs[2].Status = Undecided
		obs[2].Detail = fmt.Sprintf("%s: the counting loop `%s` does not append a cell token constructor applied to %s.Parent(%s) to %s directly; other ways of emitting (through a set, with de-duplication) are not known idioms", name, cl.header(), sv.Name(), cl.lv.Name(), acc.Name())
		obs[3].Status, obs[3].Detail = Undecided, obs[2].Detail
		return obs
	}
	*anc = ctor
	what := fmt.Sprintf("%s = append(%s, %s(%s.Parent(%s)))", acc.Name(), acc.Name(), ctor.Name(), sv.Name(), cl.lv.Name())
	problems, path := t.bodyDiscipline(g, cl, func(n ast.Node) bool {
		a, f, wrapped := t.emissionOf(n, match)
		return f == ctor && a == acc && !wrapped
	}, t.seenEdge(cl, match, func(n ast.Node) bool {
		a, f, wrapped := t.emissionOf(n, match)
		return f == ctor && a == acc && !wrapped
	}), what)
	var emitProblems, loopProblems []string
	for _, p := range problems {
		if strings.Contains(p, "does not execute") {
			emitProblems = append(emitProblems, p)
		} else {
			loopProblems = append(loopProblems, p)
		}
	}
	inspectShallow(fd.Body, func(n ast.Node) bool {
		if rs, ok := n.(*ast.ReturnStmt); ok {
			if len(rs.Results) != 1 || t.identObj(rs.Results[0]) != acc {
				emitProblems = append(emitProblems, fmt.Sprintf("%s %s does not return the accumulated tokens %s", c.Position(rs.Pos()), nodeText(c.Fset, rs), acc.Name()))
			}
		}
		return true
	})
	if len(emitProblems) > 0 {
		obs[2].Status, obs[2].Detail, obs[2].Path = Violation, fmt.Sprintf("%s: %s", name, emitProblems[0]), append(emitProblems, path...)
	} else {
		obs[2].Status, obs[2].Detail = OK, fmt.Sprintf("every visited level is emitted with %s", t.ctorName(ctor))
	}
	// #4 loop discipline
	if len(loopProblems) > 0 {
		obs[3].Status, obs[3].Detail, obs[3].Path = Violation, fmt.Sprintf("%s: %s", name, loopProblems[0]), append(loopProblems, path...)
	} else {
		obs[3].Status, obs[3].Detail = OK, fmt.Sprintf("the counting loop steps %s by one, never leaves early, and neither %s nor %s is assigned in its body", cl.lv.Name(), sv.Name(), cl.lv.Name())
	}
	return obs
}

// seenEdge recognises de-duplication inside a counting loop:
//
//	if _, ok := seen[p]; !ok { seen[p] = ...; <emit p> }
//
// with seen a map keyed by cell, p the visited ancestor, and the store into seen a statement of
// the same block as the emission. The edge on which ok is true (already emitted earlier)
// discharges a path.
func (t *gTT) seenEdge(cl *gCountLoop, match func(ast.Expr) bool, isEmit func(ast.Node) bool) func(*cfg.Block, int) bool {
	okVars := map[types.Object]types.Object{} // ok variable -> map
	inspectShallow(cl.loop.Body, func(n ast.Node) bool {
		as, ok := n.(*ast.AssignStmt)
		if !ok || len(as.Lhs) != 2 || len(as.Rhs) != 1 {
			return true
		}
		ix, ok := ast.Unparen(as.Rhs[0]).(*ast.IndexExpr)
		if !ok || !match(ix.Index) {
			return true
		}
		mt, ok := t.info.TypeOf(ix.X).Underlying().(*types.Map)
		if !ok || !isNamed(mt.Key(), gS2Path, "CellID") {
			return true
		}
		if m, okv := t.identObj(ix.X), t.identObj(as.Lhs[1]); m != nil && okv != nil {
			okVars[okv] = m
		}
		return true
	})
	// the map must be filled next to the emission
	stored := map[types.Object]bool{}
	ast.Inspect(cl.loop.Body, func(n ast.Node) bool {
		blk, ok := n.(*ast.BlockStmt)
		if !ok {
			return true
		}
		emits := false
		var ms []types.Object
		for _, st := range blk.List {
			if isEmit(st) {
				emits = true
			}
			if m, k := t.mapStore(st); m != nil && match(k) {
				ms = append(ms, m)
			}
		}
		if emits {
			for _, m := range ms {
				stored[m] = true
			}
		}
		return true
	})
	return func(b *cfg.Block, k int) bool {
		cond, ok := gCondOf(b).(ast.Expr)
		if !ok {
			return false
		}
		cond = ast.Unparen(cond)
		seenSucc := 0
		if ue, ok := cond.(*ast.UnaryExpr); ok && ue.Op == token.NOT {
			cond = ast.Unparen(ue.X)
			seenSucc = 1
		}
		m, isOK := okVars[t.identObj(cond)]
		return isOK && stored[m] && k == seenSucc
	}
}
