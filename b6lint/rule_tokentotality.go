package main

import (
	"fmt"
	"go/ast"
	"go/constant"
	"go/token"
	"go/types"
	"strings"

	"golang.org/x/tools/go/cfg"
)

// TOKEN-TOTALITY (C04): the spatial pre-filter is sound only if both halves of the token scheme
// are total:
//
//	index  (search.TokensForCovering): for every covering cell its own token, plus a marker
//	       token for every proper ancestor (through the ancestor emitter it calls);
//	query  (search.RewriteSpatialQuery): for every covering cell the marker token (finds
//	       features indexed below the cell), plus the own-token of the cell and of every
//	       ancestor up to and including the face cell (finds features indexed at or above it).
//
// Token constructors are found by shape, not by name: functions of package search taking one
// s2.CellID and returning `<constant prefix> + cell.ToToken()` (decomposed like TOKEN-FORMAT).
// Which constructor plays which role is read from the code and cross-checked (instance
// RewriteSpatialQuery#4): index-own == query-own, index-ancestor == query-marker, and the two
// prefixes differ and neither is a prefix of the other.
//
// All obligations are must-pass-through searches on go/cfg over loop bodies; a path that
// reaches the next iteration, leaves the loop, or leaves the function first is the witness.
//
//	TokensForCovering#1   in each range over the s2.CellUnion parameter that emits tokens, every
//	                      path through the body executes `acc = append(acc, ctor(cell))` for the
//	                      range variable before the next iteration (acc = the []string parameter)
//	TokensForCovering#2   every path to a return passes `return F(covering, acc)` or
//	                      `acc = F(covering, acc)` with F a module function
//	                      (s2.CellUnion, []string) []string — the ancestor emitter
//	F#1 (seed)            range over the covering: every path stores the cell in a frontier map
//	                      `cells[cell] = ...`
//	F#2 (propagate)       range over the frontier map (key id): every path stores
//	                      `parents[id.Parent(id.Level()-1)] = ...` or takes the level-0 edge of a
//	                      test of id.Level() against 0 (==, !=, >, <1, >=1)
//	F#3 (emit)            range over the parents map (key id): every path executes
//	                      `acc = append(acc, ctor(id))`
//	F#4 (advance)         the enclosing `for len(cells) > 0` loop: every path through its body
//	                      passes the emit loop and then `cells = parents` before the next
//	                      iteration, and the body never leaves the loop itself
//	RewriteSpatialQuery#1 range over the covering (value v): every path through the body appends
//	                      `All{Token: ctor(v)}` to the result before v is re-assigned
//	RewriteSpatialQuery#2 the walk: a condition-less `for { }` inside that loop stepping
//	                      `v = v.Parent(v.Level()-1)`: (a) from the body entry every path records
//	                      `ids[v] = ...` before v is assigned and before leaving the loop, (b) from
//	                      every step every path records v again before leaving the loop (so the
//	                      face cell is recorded), (c) the loop is left only over the level-0 edge
//	                      of a test of v.Level(), (d) v is assigned in the loop only by that step
//	RewriteSpatialQuery#3 range over the record map (key id), on every path to a return: every
//	                      path through its body appends `All{Token: ctor(id)}`
//	RewriteSpatialQuery#4 role agreement of the constructors (above)
//
// Accepted idioms are exactly these two ancestor enumerations (level-by-level frontier on the
// index side, walk to the root on the query side); another enumeration is reported undecided.
// Not covered: s2 semantics (that Parent(Level()-1) is the immediate parent, that coverings of
// intersecting regions share a cell), de-duplication of tokens, callers of TokensForCovering.
func init() {
	register(&Rule{
		Name:  "TOKEN-TOTALITY",
		IR:    "cfg",
		Props: []string{"C04"},
		Floor: 10, // TokensForCovering 2, cellIDAncestorTokens 4, RewriteSpatialQuery 4
		Doc: "index side: every covering cell gets its own token on every path of TokensForCovering's loop and the ancestor emitter reaches " +
			"every proper ancestor (seed, propagate to the immediate parent unless level 0, emit, advance); query side: every covering cell " +
			"contributes its marker token, the walk to the root records every cell including the face cell before leaving, every recorded " +
			"cell yields its own token; both sides use the same two token constructors in matching roles",
		Run: runTokenTotality,
	})
}

const gS2Path = "github.com/golang/geo/s2"

type gTT struct {
	c     *Ctx
	info  *types.Info
	ctors map[*types.Func]string // token constructor -> constant prefix
	all   *types.Named           // search.All
}

// gCellTokenCtors finds func(cell s2.CellID) string { return <const> + cell.ToToken() } in p.
func (c *Ctx) gCellTokenCtors(rel string) map[*types.Func]string {
	out := map[*types.Func]string{}
	p := c.Pkg(rel)
	if p == nil {
		return out
	}
	info := p.TypesInfo
	for _, fd := range c.FuncDecls(p) {
		if fd.Recv != nil || len(fd.Body.List) != 1 {
			continue
		}
		fn, _ := info.Defs[fd.Name].(*types.Func)
		if fn == nil {
			continue
		}
		sig := fn.Type().(*types.Signature)
		if sig.Params().Len() != 1 || sig.Results().Len() != 1 || !isNamed(sig.Params().At(0).Type(), gS2Path, "CellID") {
			continue
		}
		if b, ok := sig.Results().At(0).Type().Underlying().(*types.Basic); !ok || b.Kind() != types.String {
			continue
		}
		rs, ok := fd.Body.List[0].(*ast.ReturnStmt)
		if !ok || len(rs.Results) != 1 {
			continue
		}
		param := sig.Params().At(0)
		ps, why := gStringPieces(info, rs.Results[0], func(e ast.Expr) string {
			call, ok := ast.Unparen(e).(*ast.CallExpr)
			if !ok || len(call.Args) != 0 {
				return ""
			}
			se, ok := ast.Unparen(call.Fun).(*ast.SelectorExpr)
			if !ok {
				return ""
			}
			id, ok := ast.Unparen(se.X).(*ast.Ident)
			if !ok || info.ObjectOf(id) != param {
				return ""
			}
			if f := calleeFunc(info, call); f != nil && f.Name() == "ToToken" && f.Pkg() != nil && f.Pkg().Path() == gS2Path {
				return "cell-token"
			}
			return ""
		})
		if why == "" && len(ps) == 2 && ps[0].Const && !ps[1].Const && ps[1].Text == "cell-token" {
			out[fn] = ps[0].Text
		}
	}
	return out
}

func (t *gTT) isCellID(e ast.Expr) bool { return isNamed(t.info.TypeOf(e), gS2Path, "CellID") }

func (t *gTT) identObj(e ast.Expr) types.Object {
	if id, ok := ast.Unparen(e).(*ast.Ident); ok && id.Name != "_" {
		return t.info.ObjectOf(id)
	}
	return nil
}

// levelCall matches v.Level() and returns v.
func (t *gTT) levelCall(e ast.Expr) types.Object {
	call, ok := ast.Unparen(e).(*ast.CallExpr)
	if !ok || len(call.Args) != 0 {
		return nil
	}
	se, ok := ast.Unparen(call.Fun).(*ast.SelectorExpr)
	if !ok || !t.isCellID(se.X) {
		return nil
	}
	if f := calleeFunc(t.info, call); f == nil || f.Name() != "Level" || f.Pkg() == nil || f.Pkg().Path() != gS2Path {
		return nil
	}
	return t.identObj(se.X)
}

func (t *gTT) constInt(e ast.Expr) (int64, bool) {
	tv, ok := t.info.Types[ast.Unparen(e)]
	if !ok || tv.Value == nil {
		return 0, false
	}
	return constant.Int64Val(constant.ToInt(tv.Value))
}

// parentOf matches v.Parent(v.Level()-1) and returns v.
func (t *gTT) parentOf(e ast.Expr) types.Object {
	call, ok := ast.Unparen(e).(*ast.CallExpr)
	if !ok || len(call.Args) != 1 {
		return nil
	}
	se, ok := ast.Unparen(call.Fun).(*ast.SelectorExpr)
	if !ok || !t.isCellID(se.X) {
		return nil
	}
	if f := calleeFunc(t.info, call); f == nil || f.Name() != "Parent" || f.Pkg() == nil || f.Pkg().Path() != gS2Path {
		return nil
	}
	v := t.identObj(se.X)
	be, ok := ast.Unparen(call.Args[0]).(*ast.BinaryExpr)
	if v == nil || !ok || be.Op != token.SUB || t.levelCall(be.X) != v {
		return nil
	}
	if n, ok := t.constInt(be.Y); !ok || n != 1 {
		return nil
	}
	return v
}

// levelZeroEdge: the block ends in a test of v.Level() against a constant; returns the successor
// index on which the level is 0.
func (t *gTT) levelZeroEdge(b *cfg.Block, v types.Object) (int, bool) {
	cond := gCondOf(b)
	e, ok := cond.(ast.Expr)
	if !ok {
		return 0, false
	}
	be, ok := ast.Unparen(e).(*ast.BinaryExpr)
	if !ok {
		return 0, false
	}
	op, l, r := be.Op, be.X, be.Y
	if t.levelCall(l) == nil && t.levelCall(r) != nil {
		l, r = r, l
		switch op {
		case token.LSS:
			op = token.GTR
		case token.GTR:
			op = token.LSS
		case token.LEQ:
			op = token.GEQ
		case token.GEQ:
			op = token.LEQ
		}
	}
	if t.levelCall(l) != v || v == nil {
		return 0, false
	}
	k, ok := t.constInt(r)
	if !ok {
		return 0, false
	}
	switch {
	case op == token.EQL && k == 0, op == token.LEQ && k == 0, op == token.LSS && k == 1:
		return 0, true // true edge: level is 0
	case op == token.NEQ && k == 0, op == token.GTR && k == 0, op == token.GEQ && k == 1:
		return 1, true // false edge: level is 0
	}
	return 0, false
}

// mapStore matches M[key] = ... (M a local map keyed by s2.CellID) and returns M and the key.
func (t *gTT) mapStore(n ast.Node) (types.Object, ast.Expr) {
	as, ok := n.(*ast.AssignStmt)
	if !ok || as.Tok != token.ASSIGN || len(as.Lhs) != 1 {
		return nil, nil
	}
	ix, ok := ast.Unparen(as.Lhs[0]).(*ast.IndexExpr)
	if !ok {
		return nil, nil
	}
	mt, ok := t.info.TypeOf(ix.X).Underlying().(*types.Map)
	if !ok || !isNamed(mt.Key(), gS2Path, "CellID") {
		return nil, nil
	}
	return t.identObj(ix.X), ix.Index
}

// emission matches acc = append(acc, ..., ctor(v) | All{Token: ctor(v)}, ...) and returns the
// accumulator, the constructor and whether the token was wrapped in a search.All literal.
func (t *gTT) emission(n ast.Node, v types.Object) (acc types.Object, ctor *types.Func, wrapped bool) {
	as, ok := n.(*ast.AssignStmt)
	if !ok || len(as.Lhs) != 1 || len(as.Rhs) != 1 {
		return nil, nil, false
	}
	call, ok := ast.Unparen(as.Rhs[0]).(*ast.CallExpr)
	if !ok || !isBuiltin(t.info, call, "append") || len(call.Args) < 2 {
		return nil, nil, false
	}
	acc = t.identObj(as.Lhs[0])
	if acc == nil || t.identObj(call.Args[0]) != acc {
		return nil, nil, false
	}
	for _, a := range call.Args[1:] {
		a = ast.Unparen(a)
		w := false
		if cl, ok := a.(*ast.CompositeLit); ok {
			if n := namedOf(t.info.TypeOf(cl)); n == nil || n != t.all || len(cl.Elts) != 1 {
				continue
			}
			w = true
			if kv, ok := cl.Elts[0].(*ast.KeyValueExpr); ok {
				a = ast.Unparen(kv.Value)
			} else {
				a = ast.Unparen(cl.Elts[0])
			}
		}
		cc, ok := a.(*ast.CallExpr)
		if !ok || len(cc.Args) != 1 {
			continue
		}
		f := calleeFunc(t.info, cc)
		if f == nil {
			continue
		}
		if _, isCtor := t.ctors[f.Origin()]; !isCtor {
			continue
		}
		if t.identObj(cc.Args[0]) == v && v != nil {
			return acc, f.Origin(), w
		}
	}
	return nil, nil, false
}

// rangeVar returns the variable carrying the element (slices: value; maps: key).
func (t *gTT) rangeVar(rs *ast.RangeStmt) types.Object {
	if _, isMap := t.info.TypeOf(rs.X).Underlying().(*types.Map); isMap {
		if rs.Key != nil {
			return t.identObj(rs.Key)
		}
		return nil
	}
	if rs.Value != nil {
		return t.identObj(rs.Value)
	}
	return nil
}

// throughBody runs a must-pass search from the entry of a loop body: discharged by stop nodes /
// stop edges; the next iteration, the end of the loop and a function exit are witnesses.
func (t *gTT) throughBody(g *cfg.CFG, loop ast.Stmt, stopNode func(ast.Node) bool, stopEdge func(*cfg.Block, int) bool, kill func(ast.Node) string, what string) []string {
	body, iter, done := gLoopBlocks(g, loop)
	if body == nil {
		return []string{"loop body not found in the control-flow graph"}
	}
	s := &gSearch{c: t.c, info: t.info, stopNode: stopNode, stopEdge: stopEdge, killNode: kill, exitBad: true,
		badBlock: func(b *cfg.Block) string {
			if iter[b] {
				return fmt.Sprintf("starts the next iteration of the loop at %s without %s", t.c.Position(loop.Pos()), what)
			}
			if b == done {
				return fmt.Sprintf("leaves the loop at %s without %s", t.c.Position(loop.Pos()), what)
			}
			return ""
		}}
	return s.forward(body, 0)
}

func (t *gTT) loops(root ast.Node) []ast.Stmt {
	var out []ast.Stmt
	inspectShallow(root, func(n ast.Node) bool {
		switch n.(type) {
		case *ast.ForStmt, *ast.RangeStmt:
			if n != root {
				out = append(out, n.(ast.Stmt))
			}
		}
		return true
	})
	return out
}

func (t *gTT) ctorName(f *types.Func) string {
	if f == nil {
		return "<none>"
	}
	return fmt.Sprintf("%s (%q tokens)", f.Name(), t.ctors[f])
}

func runTokenTotality(c *Ctx) []Obligation {
	p := c.Pkg("search")
	if p == nil {
		return nil
	}
	t := &gTT{c: c, info: p.TypesInfo, ctors: c.gCellTokenCtors("search")}
	if tn, ok := p.Types.Scope().Lookup("All").(*types.TypeName); ok {
		t.all, _ = tn.Type().(*types.Named)
	}
	var out []Obligation
	var idxOwn, idxAnc, qMarker, qOwn *types.Func

	// ------------------------------------------------------------------ index side
	if fd, _ := c.LookupFunc("search", "TokensForCovering"); fd != nil && fd.Body != nil {
		var emitter *types.Func
		obs := t.checkTokensForCovering(fd, c.FuncName(p, fd), &idxOwn, &emitter)
		out = append(out, obs...)
		if emitter != nil {
			if ed, ep := c.Decl(emitter); ed != nil && ed.Body != nil && ep == p {
				out = append(out, t.checkFrontier(ed, c.FuncName(p, ed), &idxAnc)...)
			}
		}
	}
	// ------------------------------------------------------------------ query side
	if fd, _ := c.LookupFunc("search", "RewriteSpatialQuery"); fd != nil && fd.Body != nil {
		name := c.FuncName(p, fd)
		out = append(out, t.checkRewrite(fd, name, &qMarker, &qOwn)...)
		ob := Obligation{Key: gNthKey(name, 4), Pos: c.Position(fd.Pos())}
		var bad []string
		if idxOwn == nil || idxAnc == nil || qMarker == nil || qOwn == nil {
			ob.Status = Undecided
			ob.Detail = fmt.Sprintf("token constructor roles could not all be read: index own=%s, index ancestor=%s, query marker=%s, query own=%s",
				t.ctorName(idxOwn), t.ctorName(idxAnc), t.ctorName(qMarker), t.ctorName(qOwn))
		} else {
			if idxOwn != qOwn {
				bad = append(bad, fmt.Sprintf("cells are indexed under their own token by %s but the query looks the cell and its ancestors up with %s", t.ctorName(idxOwn), t.ctorName(qOwn)))
			}
			if idxAnc != qMarker {
				bad = append(bad, fmt.Sprintf("ancestors are indexed by %s but the query marks covering cells with %s", t.ctorName(idxAnc), t.ctorName(qMarker)))
			}
			a, b := t.ctors[idxOwn], t.ctors[idxAnc]
			if idxOwn == idxAnc || strings.HasPrefix(a, b) || strings.HasPrefix(b, a) {
				bad = append(bad, fmt.Sprintf("own-token prefix %q and ancestor-token prefix %q are not distinct", a, b))
			}
			if len(bad) > 0 {
				ob.Status, ob.Detail, ob.Path = Violation, "token scheme roles disagree between index and query: "+bad[0], bad
			} else {
				ob.Status = OK
				ob.Detail = fmt.Sprintf("own token %s and ancestor/marker token %s are used in matching roles on both sides", t.ctorName(idxOwn), t.ctorName(idxAnc))
			}
		}
		out = append(out, ob)
	}
	return out
}

// checkTokensForCovering: instances #1 (own token on every path) and #2 (ancestor emitter on
// every path to return).
func (t *gTT) checkTokensForCovering(fd *ast.FuncDecl, name string, own **types.Func, emitter **types.Func) []Obligation {
	c, info := t.c, t.info
	var covering, acc types.Object
	for _, f := range fd.Type.Params.List {
		for _, n := range f.Names {
			o := info.Defs[n]
			if o == nil {
				continue
			}
			if isNamed(o.Type(), gS2Path, "CellUnion") && covering == nil {
				covering = o
			}
			if s, ok := o.Type().Underlying().(*types.Slice); ok && acc == nil {
				if b, ok := s.Elem().Underlying().(*types.Basic); ok && b.Kind() == types.String {
					acc = o
				}
			}
		}
	}
	ob1 := Obligation{Key: gNthKey(name, 1), Pos: c.Position(fd.Pos())}
	ob2 := Obligation{Key: gNthKey(name, 2), Pos: c.Position(fd.Pos())}
	if covering == nil || acc == nil {
		ob1.Status, ob1.Detail = Undecided, "expected parameters (covering s2.CellUnion, tokens []string)"
		ob2.Status, ob2.Detail = Undecided, ob1.Detail
		return []Obligation{ob1, ob2}
	}
	g := newCFG(info, fd.Body)

	// #1
	var coverLoops []*ast.RangeStmt
	for _, l := range t.loops(fd.Body) {
		if rs, ok := l.(*ast.RangeStmt); ok && t.identObj(rs.X) == covering {
			coverLoops = append(coverLoops, rs)
		}
	}
	emits := func(rs *ast.RangeStmt) *types.Func {
		var ctor *types.Func
		v := t.rangeVar(rs)
		inspectShallow(rs.Body, func(n ast.Node) bool {
			if a, f, wrapped := t.emission(n, v); f != nil && a == acc && !wrapped && ctor == nil {
				ctor = f
			}
			return true
		})
		return ctor
	}
	var subject *ast.RangeStmt
	for _, rs := range coverLoops {
		if emits(rs) != nil && subject == nil {
			subject = rs
		}
	}
	switch {
	case len(coverLoops) == 0:
		ob1.Status, ob1.Detail = Violation, fmt.Sprintf("%s has no range loop over its covering parameter %s: no covering cell gets its own token", name, covering.Name())
	case subject == nil:
		ob1.Pos = c.Position(coverLoops[0].Pos())
		ob1.Status = Violation
		ob1.Detail = fmt.Sprintf("%s: the loop over %s at %s never appends a cell token constructor applied to its range variable to %s", name, covering.Name(), c.Position(coverLoops[0].Pos()), acc.Name())
	default:
		ctor := emits(subject)
		*own = ctor
		v := t.rangeVar(subject)
		ob1.Pos = c.Position(subject.Pos())
		what := fmt.Sprintf("%s = append(%s, %s(%s))", acc.Name(), acc.Name(), ctor.Name(), v.Name())
		w := t.throughBody(g, subject, func(n ast.Node) bool {
			a, f, wrapped := t.emission(n, v)
			return f == ctor && a == acc && !wrapped
		}, nil, func(n ast.Node) string {
			if gAssigns(info, n, v) {
				return v.Name() + " is re-assigned before its token is emitted"
			}
			return ""
		}, what)
		if w != nil {
			ob1.Status = Violation
			ob1.Detail = fmt.Sprintf("%s: a path through the loop over %s at %s does not emit the cell's own token (%s); a feature whose covering contains such a cell is not indexed under it", name, covering.Name(), c.Position(subject.Pos()), what)
			ob1.Path = append([]string{"enters the loop body at " + c.Position(subject.Body.Pos())}, w...)
		} else {
			ob1.Status, ob1.Detail = OK, fmt.Sprintf("every path through the loop over %s executes %s", covering.Name(), what)
		}
	}

	// #2
	isEmitterCall := func(e ast.Expr) *types.Func {
		call, ok := ast.Unparen(e).(*ast.CallExpr)
		if !ok || len(call.Args) != 2 {
			return nil
		}
		f := calleeFunc(info, call)
		if f == nil {
			return nil
		}
		d, _ := c.Decl(f)
		if d == nil || d == fd {
			return nil
		}
		sig := f.Type().(*types.Signature)
		if sig.Params().Len() != 2 || sig.Results().Len() != 1 || !isNamed(sig.Params().At(0).Type(), gS2Path, "CellUnion") ||
			!types.Identical(sig.Params().At(1).Type(), acc.Type()) || !types.Identical(sig.Results().At(0).Type(), acc.Type()) {
			return nil
		}
		if t.identObj(call.Args[0]) != covering || t.identObj(call.Args[1]) != acc {
			return nil
		}
		return f.Origin()
	}
	var found *types.Func
	stop := func(n ast.Node) bool {
		switch s := n.(type) {
		case *ast.ReturnStmt:
			if len(s.Results) == 1 {
				if f := isEmitterCall(s.Results[0]); f != nil {
					found = f
					return true
				}
			}
		case *ast.AssignStmt:
			if len(s.Lhs) == 1 && len(s.Rhs) == 1 && t.identObj(s.Lhs[0]) == acc {
				if f := isEmitterCall(s.Rhs[0]); f != nil {
					found = f
					return true
				}
			}
		}
		return false
	}
	s := &gSearch{c: c, info: info, stopNode: stop, exitBad: true}
	w := s.forward(g.Blocks[0], 0)
	// every return that is not the emitter call itself must return the accumulator
	var badRet string
	inspectShallow(fd.Body, func(n ast.Node) bool {
		if rs, ok := n.(*ast.ReturnStmt); ok && badRet == "" {
			if len(rs.Results) != 1 || (isEmitterCall(rs.Results[0]) == nil && t.identObj(rs.Results[0]) != acc) {
				badRet = c.Position(rs.Pos()) + " " + nodeText(c.Fset, rs)
			}
		}
		return true
	})
	switch {
	case w != nil:
		ob2.Status = Violation
		ob2.Detail = fmt.Sprintf("%s: a path returns without adding ancestor tokens through a function (s2.CellUnion, []string) []string applied to (%s, %s)", name, covering.Name(), acc.Name())
		ob2.Path = w
	case badRet != "":
		ob2.Status, ob2.Detail = Violation, fmt.Sprintf("%s: %s returns something other than the accumulated tokens", name, badRet)
	default:
		*emitter = found
		ob2.Status, ob2.Detail = OK, fmt.Sprintf("every path to a return adds ancestor tokens through %s(%s, %s)", found.Name(), covering.Name(), acc.Name())
	}
	return []Obligation{ob1, ob2}
}

// checkFrontier: the level-by-level ancestor emitter (instances #1..#4).
func (t *gTT) checkFrontier(fd *ast.FuncDecl, name string, anc **types.Func) []Obligation {
	c, info := t.c, t.info
	obs := make([]Obligation, 4)
	labels := []string{"seed", "propagate", "emit", "advance"}
	for i := range obs {
		obs[i] = Obligation{Key: gNthKey(name, i+1), Pos: c.Position(fd.Pos()), Status: Undecided}
	}
	undecidedFrom := func(i int, why string) []Obligation {
		for j := i; j < 4; j++ {
			obs[j].Status = Undecided
			obs[j].Detail = fmt.Sprintf("%s (%s): %s; the level-by-level frontier idiom (seed / propagate / emit / advance) was not recognised", name, labels[j], why)
		}
		return obs
	}
	var covering, acc types.Object
	for _, f := range fd.Type.Params.List {
		for _, n := range f.Names {
			o := info.Defs[n]
			if o == nil {
				continue
			}
			if isNamed(o.Type(), gS2Path, "CellUnion") && covering == nil {
				covering = o
			} else if _, ok := o.Type().Underlying().(*types.Slice); ok && acc == nil {
				acc = o
			}
		}
	}
	if covering == nil || acc == nil {
		return undecidedFrom(0, "expected parameters (covering s2.CellUnion, tokens []string)")
	}
	g := newCFG(info, fd.Body)
	mapStoresIn := func(body ast.Node, key func(ast.Expr) bool) types.Object {
		var m types.Object
		inspectShallow(body, func(n ast.Node) bool {
			if mo, k := t.mapStore(n); mo != nil && key(k) && m == nil {
				m = mo
			}
			return true
		})
		return m
	}
	// #1 seed
	var seed *ast.RangeStmt
	for _, l := range t.loops(fd.Body) {
		if rs, ok := l.(*ast.RangeStmt); ok && t.identObj(rs.X) == covering && seed == nil {
			seed = rs
		}
	}
	if seed == nil {
		return undecidedFrom(0, "no range loop over the covering parameter")
	}
	sv := t.rangeVar(seed)
	frontier := mapStoresIn(seed.Body, func(k ast.Expr) bool { return sv != nil && t.identObj(k) == sv })
	obs[0].Pos = c.Position(seed.Pos())
	if frontier == nil {
		obs[0].Status = Violation
		obs[0].Detail = fmt.Sprintf("%s: the loop over %s at %s stores no covering cell in a frontier map", name, covering.Name(), c.Position(seed.Pos()))
		return undecidedFrom(1, "no frontier map")
	}
	if w := t.throughBody(g, seed, func(n ast.Node) bool {
		m, k := t.mapStore(n)
		return m == frontier && t.identObj(k) == sv
	}, nil, func(n ast.Node) string {
		if gAssigns(info, n, sv) {
			return sv.Name() + " is re-assigned before it is stored"
		}
		return ""
	}, fmt.Sprintf("%s[%s] = ...", frontier.Name(), sv.Name())); w != nil {
		obs[0].Status = Violation
		obs[0].Detail = fmt.Sprintf("%s: a path through the seeding loop at %s does not put the covering cell into %s; its ancestors get no token", name, c.Position(seed.Pos()), frontier.Name())
		obs[0].Path = w
	} else {
		obs[0].Status, obs[0].Detail = OK, fmt.Sprintf("every covering cell is stored in the frontier map %s", frontier.Name())
	}
	// the outer loop: for len(frontier) > 0
	var outer *ast.ForStmt
	for _, l := range t.loops(fd.Body) {
		fs, ok := l.(*ast.ForStmt)
		if !ok || fs.Cond == nil || fs.Init != nil || fs.Post != nil || outer != nil {
			continue
		}
		be, ok := ast.Unparen(fs.Cond).(*ast.BinaryExpr)
		if !ok {
			continue
		}
		isLen := func(e ast.Expr) bool {
			call, ok := ast.Unparen(e).(*ast.CallExpr)
			return ok && isBuiltin(info, call, "len") && len(call.Args) == 1 && t.identObj(call.Args[0]) == frontier
		}
		zero := func(e ast.Expr) bool { k, ok := t.constInt(e); return ok && k == 0 }
		if (isLen(be.X) && zero(be.Y) && (be.Op == token.GTR || be.Op == token.NEQ)) || (zero(be.X) && isLen(be.Y) && (be.Op == token.LSS || be.Op == token.NEQ)) {
			outer = fs
		}
	}
	if outer == nil {
		return undecidedFrom(1, fmt.Sprintf("no `for len(%s) > 0` loop", frontier.Name()))
	}
	// #2 propagate
	var prop *ast.RangeStmt
	for _, l := range t.loops(outer.Body) {
		if rs, ok := l.(*ast.RangeStmt); ok && t.identObj(rs.X) == frontier && prop == nil {
			prop = rs
		}
	}
	if prop == nil {
		return undecidedFrom(1, fmt.Sprintf("no range loop over %s inside the frontier loop", frontier.Name()))
	}
	pv := t.rangeVar(prop)
	if pv == nil {
		return undecidedFrom(1, "the propagation loop has no key variable")
	}
	parents := mapStoresIn(prop.Body, func(k ast.Expr) bool { return t.parentOf(k) == pv })
	obs[1].Pos = c.Position(prop.Pos())
	if parents == nil {
		obs[1].Status = Violation
		obs[1].Detail = fmt.Sprintf("%s: the loop over %s at %s never stores %s.Parent(%s.Level()-1) in a map: no immediate parent is produced", name, frontier.Name(), c.Position(prop.Pos()), pv.Name(), pv.Name())
		return undecidedFrom(2, "no parents map")
	}
	if w := t.throughBody(g, prop, func(n ast.Node) bool {
		m, k := t.mapStore(n)
		return m == parents && t.parentOf(k) == pv
	}, func(b *cfg.Block, k int) bool {
		z, ok := t.levelZeroEdge(b, pv)
		return ok && z == k
	}, func(n ast.Node) string {
		if gAssigns(info, n, pv) {
			return pv.Name() + " is re-assigned"
		}
		return ""
	}, fmt.Sprintf("%s[%s.Parent(%s.Level()-1)] = ... (and not over a level-0 test of %s)", parents.Name(), pv.Name(), pv.Name(), pv.Name())); w != nil {
		obs[1].Status = Violation
		obs[1].Detail = fmt.Sprintf("%s: a path through the propagation loop at %s skips a cell that is not known to be at level 0 without storing its immediate parent in %s; that ancestor and all above it get no token", name, c.Position(prop.Pos()), parents.Name())
		obs[1].Path = w
	} else {
		obs[1].Status, obs[1].Detail = OK, fmt.Sprintf("every frontier cell above level 0 stores its immediate parent in %s", parents.Name())
	}
	// #3 emit
	var emit *ast.RangeStmt
	for _, l := range t.loops(outer.Body) {
		if rs, ok := l.(*ast.RangeStmt); ok && t.identObj(rs.X) == parents && emit == nil {
			emit = rs
		}
	}
	if emit == nil {
		obs[2].Status = Violation
		obs[2].Detail = fmt.Sprintf("%s: no loop over %s emits the ancestors' tokens", name, parents.Name())
		return undecidedFrom(3, "no emission loop")
	}
	ev := t.rangeVar(emit)
	obs[2].Pos = c.Position(emit.Pos())
	var ctor *types.Func
	inspectShallow(emit.Body, func(n ast.Node) bool {
		if a, f, wrapped := t.emission(n, ev); f != nil && a == acc && !wrapped && ctor == nil {
			ctor = f
		}
		return true
	})
	if ctor == nil {
		obs[2].Status = Violation
		obs[2].Detail = fmt.Sprintf("%s: the loop over %s at %s never appends a cell token constructor applied to its key to %s", name, parents.Name(), c.Position(emit.Pos()), acc.Name())
	} else {
		*anc = ctor
		what := fmt.Sprintf("%s = append(%s, %s(%s))", acc.Name(), acc.Name(), ctor.Name(), ev.Name())
		if w := t.throughBody(g, emit, func(n ast.Node) bool {
			a, f, wrapped := t.emission(n, ev)
			return f == ctor && a == acc && !wrapped
		}, nil, func(n ast.Node) string {
			if gAssigns(info, n, ev) {
				return ev.Name() + " is re-assigned before its token is emitted"
			}
			return ""
		}, what); w != nil {
			obs[2].Status = Violation
			obs[2].Detail = fmt.Sprintf("%s: a path through the emission loop at %s does not execute %s for an ancestor", name, c.Position(emit.Pos()), what)
			obs[2].Path = w
		} else {
			obs[2].Status, obs[2].Detail = OK, fmt.Sprintf("every ancestor in %s is emitted with %s", parents.Name(), t.ctorName(ctor))
		}
	}
	// every return returns the accumulator
	inspectShallow(fd.Body, func(n ast.Node) bool {
		if rs, ok := n.(*ast.ReturnStmt); ok && obs[2].Status == OK {
			if len(rs.Results) != 1 || t.identObj(rs.Results[0]) != acc {
				obs[2].Status = Violation
				obs[2].Detail = fmt.Sprintf("%s: %s %s does not return the accumulated tokens %s", name, c.Position(rs.Pos()), nodeText(c.Fset, rs), acc.Name())
			}
		}
		return true
	})
	// #4 advance
	obs[3].Pos = c.Position(outer.Pos())
	isAdvance := func(n ast.Node) bool {
		as, ok := n.(*ast.AssignStmt)
		return ok && as.Tok == token.ASSIGN && len(as.Lhs) == 1 && len(as.Rhs) == 1 && t.identObj(as.Lhs[0]) == frontier && t.identObj(as.Rhs[0]) == parents
	}
	var emitHead, propHead *cfg.Block
	for _, b := range g.Blocks {
		if b.Kind == cfg.KindRangeLoop && b.Stmt == ast.Stmt(emit) {
			emitHead = b
		}
		if b.Kind == cfg.KindRangeLoop && b.Stmt == ast.Stmt(prop) {
			propHead = b
		}
	}
	body, iter, done := gLoopBlocks(g, outer)
	leave := func(what string) func(b *cfg.Block) string {
		return func(b *cfg.Block) string {
			if iter[b] {
				return fmt.Sprintf("starts the next iteration of the frontier loop at %s without %s", c.Position(outer.Pos()), what)
			}
			if b == done {
				return fmt.Sprintf("breaks out of the frontier loop at %s", c.Position(outer.Pos()))
			}
			return ""
		}
	}
	// (i) body entry -> propagation loop before anything else that matters
	s1 := &gSearch{c: c, info: info, exitBad: true, stopBlock: func(b *cfg.Block) bool { return b == propHead },
		killNode: func(n ast.Node) string {
			if isAdvance(n) {
				return "the frontier is replaced before it was propagated"
			}
			return ""
		}, badBlock: leave("propagating the frontier")}
	// (ii) after propagation -> emission loop head before the advance
	s2 := &gSearch{c: c, info: info, exitBad: true, stopBlock: func(b *cfg.Block) bool { return b == emitHead },
		killNode: func(n ast.Node) string {
			if isAdvance(n) {
				return "the frontier is replaced before the parents were emitted"
			}
			return ""
		}, badBlock: leave("emitting the parents")}
	// (iii) after emission -> advance before the next iteration
	s3 := &gSearch{c: c, info: info, exitBad: true, stopNode: isAdvance,
		badBlock: leave(fmt.Sprintf("%s = %s", frontier.Name(), parents.Name()))}
	var w []string
	var propDone, emitDone *cfg.Block
	for _, b := range g.Blocks {
		if b.Kind == cfg.KindRangeDone && b.Stmt == ast.Stmt(prop) {
			propDone = b
		}
		if b.Kind == cfg.KindRangeDone && b.Stmt == ast.Stmt(emit) {
			emitDone = b
		}
	}
	switch {
	case body == nil || propHead == nil || emitHead == nil || propDone == nil || emitDone == nil:
		w = []string{"loops not found in the control-flow graph"}
	default:
		if w = s1.forward(body, 0); w == nil {
			if w = s2.forward(propDone, 0); w == nil {
				w = s3.forward(emitDone, 0)
			}
		}
	}
	// no break/return out of the two inner loops either
	if w == nil {
		for _, inner := range []*ast.RangeStmt{prop, emit} {
			inspectShallow(inner.Body, func(n ast.Node) bool {
				switch s := n.(type) {
				case *ast.ReturnStmt:
					w = []string{"returns from inside the loop at " + c.Position(s.Pos())}
				case *ast.BranchStmt:
					if s.Tok == token.BREAK || s.Tok == token.GOTO {
						w = []string{s.Tok.String() + " inside the loop at " + c.Position(s.Pos()) + " abandons the remaining cells"}
					}
				}
				return true
			})
		}
	}
	if w != nil {
		obs[3].Status = Violation
		obs[3].Detail = fmt.Sprintf("%s: the frontier loop at %s does not, on every path, propagate, emit and then advance (%s = %s) before its next iteration; ancestors above that level get no token", name, c.Position(outer.Pos()), frontier.Name(), parents.Name())
		obs[3].Path = w
	} else {
		obs[3].Status, obs[3].Detail = OK, fmt.Sprintf("every iteration propagates %s, emits %s and advances %s = %s; the loop ends only when the frontier is empty", frontier.Name(), parents.Name(), frontier.Name(), parents.Name())
	}
	return obs
}

// checkRewrite: the query side (instances #1..#3).
func (t *gTT) checkRewrite(fd *ast.FuncDecl, name string, marker, own **types.Func) []Obligation {
	c, info := t.c, t.info
	obs := make([]Obligation, 3)
	labels := []string{"marker", "walk", "own tokens"}
	for i := range obs {
		obs[i] = Obligation{Key: gNthKey(name, i+1), Pos: c.Position(fd.Pos()), Status: Undecided}
	}
	undecidedFrom := func(i int, why string) []Obligation {
		for j := i; j < 3; j++ {
			obs[j].Status = Undecided
			obs[j].Detail = fmt.Sprintf("%s (%s): %s; the walk-to-the-root idiom was not recognised", name, labels[j], why)
		}
		return obs
	}
	g := newCFG(info, fd.Body)
	// the loop over the covering: a range over a value of type s2.CellUnion
	var cover *ast.RangeStmt
	for _, l := range t.loops(fd.Body) {
		if rs, ok := l.(*ast.RangeStmt); ok && isNamed(info.TypeOf(rs.X), gS2Path, "CellUnion") && cover == nil {
			cover = rs
		}
	}
	if cover == nil {
		return undecidedFrom(0, "no range loop over an s2.CellUnion")
	}
	v := t.rangeVar(cover)
	if v == nil {
		return undecidedFrom(0, "the loop over the covering has no value variable")
	}
	// #1 marker
	obs[0].Pos = c.Position(cover.Pos())
	var acc types.Object
	var mctor *types.Func
	inspectShallow(cover.Body, func(n ast.Node) bool {
		if a, f, wrapped := t.emission(n, v); f != nil && wrapped && mctor == nil {
			acc, mctor = a, f
		}
		return true
	})
	if mctor == nil {
		obs[0].Status = Violation
		obs[0].Detail = fmt.Sprintf("%s: the loop over the covering at %s never appends All{Token: ctor(%s)}: features indexed below a covering cell are not searched for", name, c.Position(cover.Pos()), v.Name())
	} else {
		*marker = mctor
		what := fmt.Sprintf("%s = append(%s, All{Token: %s(%s)})", acc.Name(), acc.Name(), mctor.Name(), v.Name())
		if w := t.throughBody(g, cover, func(n ast.Node) bool {
			a, f, wrapped := t.emission(n, v)
			return f == mctor && a == acc && wrapped
		}, nil, func(n ast.Node) string {
			if gAssigns(info, n, v) {
				return v.Name() + " is re-assigned before the covering cell's marker token is added"
			}
			return ""
		}, what); w != nil {
			obs[0].Status = Violation
			obs[0].Detail = fmt.Sprintf("%s: a path through the loop over the covering at %s does not execute %s for the covering cell itself", name, c.Position(cover.Pos()), what)
			obs[0].Path = w
		} else {
			obs[0].Status, obs[0].Detail = OK, fmt.Sprintf("every covering cell contributes its marker token %s", t.ctorName(mctor))
		}
	}
	// #2 walk
	var walk *ast.ForStmt
	var steps, otherAssigns []*ast.AssignStmt
	for _, l := range t.loops(cover.Body) {
		fs, ok := l.(*ast.ForStmt)
		if !ok || walk != nil {
			continue
		}
		has := false
		inspectShallow(fs.Body, func(n ast.Node) bool {
			if as, ok := n.(*ast.AssignStmt); ok && len(as.Lhs) == 1 && len(as.Rhs) == 1 && t.identObj(as.Lhs[0]) == v && t.parentOf(as.Rhs[0]) == v {
				has = true
			}
			return true
		})
		if has {
			walk = fs
		}
	}
	if walk == nil {
		return undecidedFrom(1, fmt.Sprintf("no for loop stepping %s = %s.Parent(%s.Level()-1) inside the loop over the covering", v.Name(), v.Name(), v.Name()))
	}
	obs[1].Pos = c.Position(walk.Pos())
	if walk.Cond != nil || walk.Init != nil || walk.Post != nil {
		obs[1].Status = Undecided
		obs[1].Detail = fmt.Sprintf("%s: the walk at %s has a loop condition; only `for { record; if level 0 { break }; step }` is a known idiom", name, c.Position(walk.Pos()))
		return undecidedFrom(2, "walk not recognised")
	}
	inspectShallow(walk.Body, func(n ast.Node) bool {
		if gAssigns(info, n, v) {
			if as, ok := n.(*ast.AssignStmt); ok && len(as.Lhs) == 1 && len(as.Rhs) == 1 && t.parentOf(as.Rhs[0]) == v {
				steps = append(steps, as)
			} else if as, ok := n.(*ast.AssignStmt); ok {
				otherAssigns = append(otherAssigns, as)
			} else {
				otherAssigns = append(otherAssigns, nil)
			}
		}
		return true
	})
	var ids types.Object
	inspectShallow(walk.Body, func(n ast.Node) bool {
		if m, k := t.mapStore(n); m != nil && t.identObj(k) == v && ids == nil {
			ids = m
		}
		return true
	})
	if ids == nil {
		obs[1].Status = Violation
		obs[1].Detail = fmt.Sprintf("%s: the walk at %s never records %s in a map keyed by cell: no own-token is looked up for the cell or its ancestors", name, c.Position(walk.Pos()), v.Name())
		return undecidedFrom(2, "no record map")
	}
	isRecord := func(n ast.Node) bool {
		m, k := t.mapStore(n)
		return m == ids && t.identObj(k) == v
	}
	wbody, witer, wdone := gLoopBlocks(g, walk)
	var problems []string
	var path []string
	if len(otherAssigns) > 0 {
		problems = append(problems, fmt.Sprintf("%s is assigned in the walk by something other than the immediate-parent step", v.Name()))
	}
	leaveWalk := func(b *cfg.Block) string {
		if b == wdone {
			return fmt.Sprintf("leaves the walk at %s", c.Position(walk.Pos()))
		}
		if !gInside(b, walk) {
			return fmt.Sprintf("jumps out of the walk at %s", c.Position(walk.Pos()))
		}
		return ""
	}
	// (a) entry: record before assigning v, before the next iteration, before leaving
	sa := &gSearch{c: c, info: info, exitBad: true, stopNode: isRecord,
		killNode: func(n ast.Node) string {
			if gAssigns(info, n, v) {
				return v.Name() + " is stepped before it was recorded"
			}
			return ""
		},
		badBlock: func(b *cfg.Block) string {
			if witer[b] {
				return "starts the next iteration without recording " + v.Name()
			}
			return leaveWalk(b)
		}}
	if w := sa.forward(wbody, 0); w != nil {
		problems = append(problems, fmt.Sprintf("a path through the walk body reaches a step, the next iteration or the end of the walk without %s[%s] = ...", ids.Name(), v.Name()))
		path = append(path, w...)
	}
	// (b) after each step: record again before leaving the walk (going round the loop is fine)
	for _, st := range steps {
		loc, ok := findNode(g, st)
		if !ok {
			problems = append(problems, "step not found in the control-flow graph")
			continue
		}
		sb := &gSearch{c: c, info: info, exitBad: true, stopNode: isRecord, badBlock: leaveWalk,
			killNode: func(n ast.Node) string {
				if gAssigns(info, n, v) {
					return v.Name() + " is stepped again before it was recorded"
				}
				return ""
			}}
		if w := sb.forward(loc.b, loc.i+1); w != nil {
			problems = append(problems, fmt.Sprintf("after the step at %s the walk can end without recording the new %s (the face cell is lost)", c.Position(st.Pos()), v.Name()))
			path = append(path, w...)
		}
	}
	// (c) the walk is left only over a level-0 edge
	sc := &gSearch{c: c, info: info, exitBad: true,
		stopEdge: func(b *cfg.Block, k int) bool {
			z, ok := t.levelZeroEdge(b, v)
			return ok && z == k
		},
		stopBlock: func(b *cfg.Block) bool { return witer[b] },
		badBlock:  leaveWalk}
	if w := sc.forward(wbody, 0); w != nil {
		problems = append(problems, fmt.Sprintf("the walk can be left while %s is not known to be at level 0 (ancestors above it are not looked up)", v.Name()))
		path = append(path, w...)
	}
	if len(problems) > 0 {
		obs[1].Status = Violation
		obs[1].Detail = fmt.Sprintf("%s: walk to the root at %s: %s", name, c.Position(walk.Pos()), problems[0])
		obs[1].Path = append(problems, path...)
	} else {
		obs[1].Status = OK
		obs[1].Detail = fmt.Sprintf("the walk records %s in %s at every level, steps to the immediate parent and ends only at level 0", v.Name(), ids.Name())
	}
	// #3 own tokens
	var emit *ast.RangeStmt
	for _, l := range t.loops(fd.Body) {
		if rs, ok := l.(*ast.RangeStmt); ok && t.identObj(rs.X) == ids && emit == nil {
			emit = rs
		}
	}
	if emit == nil {
		obs[2].Status = Violation
		obs[2].Detail = fmt.Sprintf("%s: no loop over %s turns the recorded cells into tokens", name, ids.Name())
		return obs
	}
	obs[2].Pos = c.Position(emit.Pos())
	ev := t.rangeVar(emit)
	var octor *types.Func
	var oacc types.Object
	inspectShallow(emit.Body, func(n ast.Node) bool {
		if a, f, wrapped := t.emission(n, ev); f != nil && wrapped && octor == nil {
			oacc, octor = a, f
		}
		return true
	})
	if octor == nil {
		obs[2].Status = Violation
		obs[2].Detail = fmt.Sprintf("%s: the loop over %s at %s never appends All{Token: ctor(key)}", name, ids.Name(), c.Position(emit.Pos()))
		return obs
	}
	*own = octor
	what := fmt.Sprintf("%s = append(%s, All{Token: %s(%s)})", oacc.Name(), oacc.Name(), octor.Name(), ev.Name())
	var w []string
	if acc != nil && oacc != acc {
		w = []string{fmt.Sprintf("own tokens are appended to %s, marker tokens to %s", oacc.Name(), acc.Name())}
	}
	if w == nil {
		w = t.throughBody(g, emit, func(n ast.Node) bool {
			a, f, wrapped := t.emission(n, ev)
			return f == octor && a == oacc && wrapped
		}, nil, func(n ast.Node) string {
			if gAssigns(info, n, ev) {
				return ev.Name() + " is re-assigned before its token is added"
			}
			return ""
		}, what)
	}
	if w == nil {
		// the loop lies on every path to a return, and every return returns the accumulator
		var head *cfg.Block
		for _, b := range g.Blocks {
			if b.Kind == cfg.KindRangeLoop && b.Stmt == ast.Stmt(emit) {
				head = b
			}
		}
		s := &gSearch{c: c, info: info, exitBad: true, stopBlock: func(b *cfg.Block) bool { return b == head }}
		if ww := s.forward(g.Blocks[0], 0); ww != nil {
			w = append([]string{"a path returns without running the loop over " + ids.Name()}, ww...)
		}
		inspectShallow(fd.Body, func(n ast.Node) bool {
			if rs, ok := n.(*ast.ReturnStmt); ok && w == nil {
				if len(rs.Results) != 1 || t.identObj(rs.Results[0]) != oacc {
					w = []string{fmt.Sprintf("%s %s does not return the rewritten query %s", c.Position(rs.Pos()), nodeText(c.Fset, rs), oacc.Name())}
				}
			}
			return true
		})
	}
	if w != nil {
		obs[2].Status = Violation
		obs[2].Detail = fmt.Sprintf("%s: not every recorded cell of %s ends up as an own-token term (%s) of the returned query", name, ids.Name(), what)
		obs[2].Path = w
	} else {
		obs[2].Status, obs[2].Detail = OK, fmt.Sprintf("every recorded cell yields %s and the result is returned", t.ctorName(octor))
	}
	return obs
}
