package main

import (
	"fmt"
	"go/ast"
	"go/types"

	"golang.org/x/tools/go/cfg"
)

// LEAD-RESTART (C03, C06): an intersection walks its clauses against a lead iterator: clause i is
// advanced to the lead's value and, if it lands beyond it, the lead is advanced to clause i's value.
// From that moment the clauses 1..i-1 have been matched against a value the lead no longer has, so
// the walk has to start again from clause 1. Carrying on with clause i+1 "because the lead landed
// exactly on clause i's value" returns values that an earlier clause does not contain — with three
// or more clauses only, which no test of the search package uses.
//
// Discovery, by type and shape (whole module): a for loop whose variable starts at a constant >= 1
// and indexes a slice S whose elements implement search.Iterator, with a call in its body that
// moves the lead — a method of search.Iterator with a bool result (Next, Advance) invoked on S[0].
// Obligation (on the function's control-flow graph): no path leads from that call to the loop's
// post statement: every path leaves the loop (break, return) first.
func init() {
	register(&Rule{
		Name:  "LEAD-RESTART",
		IR:    "cfg",
		Props: []string{"C03", "C06"},
		Floor: 1,
		Doc:   "in a loop that matches the other clauses of an intersection against a lead iterator, every path that moves the lead leaves the loop before its next iteration (the clauses already examined were matched against the lead's old value)",
		Run:   runLeadRestart,
	})
}

func runLeadRestart(c *Ctx) []Obligation {
	var out []Obligation
	sp := c.Pkg("search")
	if sp == nil {
		return out
	}
	tn, _ := sp.Types.Scope().Lookup("Iterator").(*types.TypeName)
	if tn == nil {
		return out
	}
	iface, _ := tn.Type().Underlying().(*types.Interface)
	if iface == nil {
		return out
	}
	for _, p := range c.SortedPkgs() {
		info := p.TypesInfo
		for _, fd := range c.FuncDecls(p) {
			if fd.Body == nil {
				continue
			}
			name := c.FuncName(p, fd)
			ord := 0
			var g = newCFG(info, fd.Body)
			ast.Inspect(fd.Body, func(n ast.Node) bool {
				fs, ok := n.(*ast.ForStmt)
				if !ok || fs.Init == nil || fs.Post == nil {
					return true
				}
				init, ok := fs.Init.(*ast.AssignStmt)
				if !ok || len(init.Lhs) != 1 || len(init.Rhs) != 1 {
					return true
				}
				tv := info.Types[init.Rhs[0]]
				if tv.Value == nil || tv.Value.ExactString() == "0" {
					return true
				}
				// calls S[0].M(...) in the body where S's elements implement the iterator interface
				ast.Inspect(fs.Body, func(m ast.Node) bool {
					call, ok := m.(*ast.CallExpr)
					if !ok {
						return true
					}
					sel, ok := ast.Unparen(call.Fun).(*ast.SelectorExpr)
					if !ok {
						return true
					}
					ix, ok := ast.Unparen(sel.X).(*ast.IndexExpr)
					if !ok {
						return true
					}
					if k := info.Types[ix.Index]; k.Value == nil || k.Value.ExactString() != "0" {
						return true
					}
					et := info.TypeOf(ix)
					if et == nil || !types.Implements(et, iface) {
						return true
					}
					f, _ := info.Uses[sel.Sel].(*types.Func)
					if f == nil {
						return true
					}
					sig := f.Type().(*types.Signature)
					if sig.Results().Len() != 1 {
						return true
					}
					if b, ok := sig.Results().At(0).Type().Underlying().(*types.Basic); !ok || b.Kind() != types.Bool {
						return true
					}
					isIfaceMethod := false
					for i := 0; i < iface.NumMethods(); i++ {
						if iface.Method(i).Name() == f.Name() {
							isIfaceMethod = true
						}
					}
					if !isIfaceMethod {
						return true
					}
					ord++
					ob := Obligation{Key: fmt.Sprintf("%s#%d", name, ord), Pos: c.Position(call.Pos()), Status: OK}
					// a path that re-enters the loop through its init statement has started again
					from, ok1 := findNode(g, call)
					to, ok2 := findNode(g, fs.Post)
					switch {
					case !ok1 || !ok2:
						ob.Status = Undecided
						ob.Detail = "the call or the loop's post statement was not found in the control-flow graph"
					case reachesAvoiding(g, from, to, fs.Init):
						ob.Status = Violation
						ob.Detail = fmt.Sprintf("after %s moves the lead, a path carries on with the next clause (%s): the clauses already examined were matched against the lead's old value and are not examined again, so a value that one of them does not contain can be returned", srcText(c.Fset, call), srcText(c.Fset, fs.Post))
					default:
						ob.Detail = fmt.Sprintf("every path from %s leaves the loop over the other clauses before its next iteration", srcText(c.Fset, call))
					}
					out = append(out, ob)
					return true
				})
				return true
			})
		}
	}
	return out
}

// reachesAvoiding reports whether control can flow from a to b without executing the statement avoid.
func reachesAvoiding(g *cfg.CFG, a, b nodeLoc, avoid ast.Node) bool {
	av, hasAvoid := findNode(g, avoid)
	if a.b == b.b && a.i < b.i {
		return true
	}
	seen := map[int32]bool{}
	var walk func(bi int32) bool
	walk = func(bi int32) bool {
		if seen[bi] {
			return false
		}
		seen[bi] = true
		for _, s := range g.Blocks[bi].Succs {
			if s.Index == b.b.Index {
				if hasAvoid && av.b.Index == s.Index && av.i < b.i {
					continue
				}
				return true
			}
			if hasAvoid && av.b.Index == s.Index {
				continue
			}
			if walk(s.Index) {
				return true
			}
		}
		return false
	}
	return walk(a.b.Index)
}
